//@ target src/recovery.rs
//@ needs txseg.rs
// Precondition A12 (dispatcher invariant, assumed): last_sent_seq_nr <= snd_una + number of queued segments; without it
// Segments::calc_pipe's `range_mut(..take)` is out of range (found by the first run of these harnesses).
// U-recovery (C06, C05, C10): duplicate-ACK counting and the fast-recovery phase machine (RFC 6582 / 6675 as used
// here). Non-SACK mode is decided; SACK-mode counting goes through bitvec `count_ones()` (attempt-class).
use super::*;
use crate::stream_tx_segments::verif_kani_txseg::{any_instant, any_segments};

fn any_type() -> Type {
    match kani::any::<u8>() % 5 { 0 => Type::ST_DATA, 1 => Type::ST_FIN, 2 => Type::ST_STATE, 3 => Type::ST_RESET, _ => Type::ST_SYN }
}

fn any_plain_header() -> UtpHeader {
    UtpHeader { htype: any_type(), ack_nr: SeqNr(kani::any()), wnd_size: kani::any(), seq_nr: SeqNr(kani::any()), ..Default::default() }
}

/// A congestion controller that only records what recovery asks of it.
#[derive(Debug)]
struct Mock { enter: usize, recovered: usize, recovered_args: (usize, usize), ssthresh: usize, mss: usize }
impl CongestionController for Mock {
    fn window(&self) -> usize { 0 }
    fn sshthresh(&self) -> usize { self.ssthresh }
    fn set_mss(&mut self, _mss: usize) {}
    fn smss(&self) -> usize { self.mss }
    fn on_recovered(&mut self, c: usize, s: usize) { self.recovered += 1; self.recovered_args = (c, s); }
    fn on_ack(&mut self, _now: Instant, _len: usize, _rtt: &crate::rtte::RttEstimator) {}
    fn on_retransmission_timeout(&mut self, _now: Instant) {}
    fn on_enter_recovery(&mut self, _now: Instant) { self.enter += 1; }
    fn set_remote_window(&mut self, _win: usize) {}
}
fn any_mock() -> Mock {
    let m = Mock { enter: 0, recovered: 0, recovered_args: (0, 0), ssthresh: kani::any(), mss: kani::any() };
    kani::assume(m.mss >= 1 && m.mss <= 65535 && m.ssthresh <= (1 << 40));
    m
}

//@ harness id=recovery.k.count_non_sack kind=complete props=C06 tier=quick timeout=300 text="count_non_sack_duplicates: the counter goes up by one (saturating) exactly for an ST_STATE packet that repeats the previous ack_nr with an unchanged window; anything else resets it to 0 and records (ack_nr, window)"
#[kani::proof]
fn count_non_sack() {
    let h = any_plain_header();
    let prev: u8 = kani::any();
    let mut last: Option<LastAck> = if kani::any() { Some(LastAck { window: kani::any(), ack_nr: SeqNr(kani::any()) }) } else { None };
    let before = last;
    let r = count_non_sack_duplicates(&h, &any_on_ack_result(), prev, &mut last);
    let dup = match before { Some(l) => h.htype == Type::ST_STATE && l.ack_nr == h.ack_nr && l.window == h.wnd_size, None => false };
    if dup {
        assert!(r == prev.saturating_add(1));
        let (a, b) = (last.unwrap(), before.unwrap());
        assert!(a.window == b.window && a.ack_nr == b.ack_nr);
    } else {
        assert!(r == 0);
        let a = last.unwrap();
        assert!(a.window == h.wnd_size && a.ack_nr == h.ack_nr);
    }
}

// any ACK-processing result: the duplicate/SACK evidence must be counted the same whether or not this ACK also moved the cumulative point
fn any_on_ack_result() -> OnAckResult {
    OnAckResult { acked_segments_count: kani::any(), acked_bytes: kani::any(), max_acked_payload_size: kani::any(),
        newly_sacked_segment_count: kani::any(), newly_sacked_byte_count: kani::any(),
        new_rtt: if kani::any() { Some(Duration::from_millis(kani::any::<u32>() as u64)) } else { None } }
}

//@ harness id=recovery.k.count_sack_none kind=complete props=C06 tier=quick timeout=300 text="count_sack_duplicates on a header without SACK (a cumulative ACK) resets the duplicate counter to 0"
#[kani::proof]
fn count_sack_none() {
    let h = any_plain_header();
    assert!(count_sack_duplicates(&h, &any_on_ack_result(), kani::any()) == 0);
}

//@ harness id=recovery.k.count_sack_some kind=bounded props=C06 tier=quick timeout=900 bound="selective ACK of one byte (8 packets)" text="count_sack_duplicates with a SACK (the `equivalent selective-ACK evidence`): returns the threshold 3 at once when >= 3 packets are selectively acked, else counter + 1 - whatever else this ACK did (any OnAckResult, e.g. it also advanced the cumulative point)"
#[kani::proof]
#[kani::unwind(10)]
fn count_sack_some() {
    let mut h = any_plain_header();
    let bytes: [u8; 1] = kani::any();
    h.extensions.selective_ack = Some(crate::raw::selective_ack::SelectiveAck::deserialize(&bytes));
    let prev: u8 = kani::any();
    kani::assume(prev < 3);
    let r = count_sack_duplicates(&h, &any_on_ack_result(), prev);
    let ones = bytes[0].count_ones();
    assert!(r == if ones >= 3 { 3 } else { prev + 1 });
}

//@ harness id=recovery.k.accessors kind=complete props=C06,C05 tier=quick timeout=300 text="Recovering::cwnd == cwnd -. pipe; Recovery::remaining_cwnd == min(cwnd, peer window) -. pipe in recovery, None otherwise; on_rto_timeout during recovery switches to ignoring duplicates until the new recovery point, and is the identity otherwise; new() starts counting at 0"
#[kani::proof]
fn accessors() {
    let rec = Recovering { recovery_point: SeqNr(kani::any()), high_rxt: SeqNr(kani::any()), total_retransmitted_segments: kani::any(),
        pipe_estimate: Pipe { pipe: kani::any(), recalc_timer: None }, cwnd: kani::any() };
    assert!(rec.cwnd() == rec.cwnd.saturating_sub(rec.pipe_estimate.pipe));
    let w: u32 = kani::any();
    let mut r = Recovery { receiver_supports_sack: kani::any(), last_ack: None, phase: RecoveryPhase::Recovering(rec) };
    assert!(r.remaining_cwnd(w) == Some(core::cmp::min(rec.cwnd, w as usize).saturating_sub(rec.pipe_estimate.pipe)));
    assert!(r.is_recovering());
    let ls = SeqNr(kani::any());
    r.on_rto_timeout(ls);
    assert!(matches!(r.phase, RecoveryPhase::IgnoringUntilRecoveryPoint { recovery_point } if recovery_point == ls));
    assert!(r.remaining_cwnd(w).is_none() && !r.is_recovering());
    r.on_rto_timeout(SeqNr(kani::any()));
    assert!(matches!(r.phase, RecoveryPhase::IgnoringUntilRecoveryPoint { recovery_point } if recovery_point == ls));
    let n = Recovery::new();
    assert!(matches!(n.phase, RecoveryPhase::CountingDuplicates { dup_acks: 0 }) && !n.receiver_supports_sack && n.last_ack.is_none());
    let mut c = n;
    c.on_rto_timeout(ls);
    assert!(matches!(c.phase, RecoveryPhase::CountingDuplicates { dup_acks: 0 }));
}

fn check_on_ack_counting<const N: usize>() {
    let mut segs = any_segments::<N>();
    kani::assume(segs.sack_depth() <= 64);
    let una0 = segs.first_seq_nr();
    let dup0: u8 = kani::any();
    kani::assume(dup0 < 3);
    let last = if kani::any() { Some(LastAck { window: kani::any(), ack_nr: SeqNr(kani::any()) }) } else { None };
    let mut r = Recovery { receiver_supports_sack: false, last_ack: last, phase: RecoveryPhase::CountingDuplicates { dup_acks: dup0 } };
    let h = any_plain_header();
    let last_sent = SeqNr(kani::any());
    // dispatcher invariant (assumed, A12): last_sent_seq_nr never runs ahead of the queued segments by more than the FIN
    if let Some(una) = una0 { kani::assume(last_sent - una <= N as isize); }
    let mut m = any_mock();
    let ms: u64 = kani::any();
    kani::assume(ms <= 60_000);
    r.on_ack(&h, &any_on_ack_result(), &mut segs, last_sent, &mut m, any_instant(), Duration::from_millis(ms));
    let dup = match last { Some(l) => h.htype == Type::ST_STATE && l.ack_nr == h.ack_nr && l.window == h.wnd_size, None => false };
    assert!(!r.receiver_supports_sack);
    match una0 {
        None => {
            // nothing outstanding: duplicates are not counted, recovery is never entered
            assert!(matches!(r.phase, RecoveryPhase::CountingDuplicates { dup_acks: 0 }) && m.enter == 0);
        }
        Some(una) => {
            let count = if dup { dup0 + 1 } else { 0 };
            if count >= 3 {
                // the third duplicate ACK: fast retransmit / recovery is entered, exactly once, without waiting for the RTO
                assert!(m.enter == 1);
                match r.phase {
                    RecoveryPhase::Recovering(rec) => {
                        assert!(rec.recovery_point == last_sent && rec.high_rxt == una - 1);
                        assert!(rec.total_retransmitted_segments == 0 && rec.cwnd == m.ssthresh);
                    }
                    _ => assert!(false),
                }
            } else {
                assert!(m.enter == 0);
                assert!(matches!(r.phase, RecoveryPhase::CountingDuplicates { dup_acks } if dup_acks == count));
            }
        }
    }
    assert!(m.recovered == 0);
}

//@ harness id=recovery.k.on_ack.counting.n0 kind=bounded props=C06,C10 tier=quick timeout=900 bound="N_SEG==0; header without SACK (non-SACK mode)" text="Recovery::on_ack while counting duplicates, non-SACK mode, any header: nothing outstanding => counter reset and recovery never entered; otherwise recovery is entered exactly when the counter reaches 3 (third duplicate ACK), exactly once, with recovery_point == last_sent_seq_nr, high_rxt == snd_una - 1 and cwnd == ssthresh; no panic"
#[kani::proof]
#[kani::unwind(4)]
fn on_ack_counting_n0() { check_on_ack_counting::<0>(); }

//@ harness id=recovery.k.on_ack.counting.n1 kind=bounded props=C06,C10 tier=quick timeout=900 bound="N_SEG==1; header without SACK (non-SACK mode)" text="same as recovery.k.on_ack.counting.n0 with one outstanding segment"
#[kani::proof]
#[kani::unwind(5)]
fn on_ack_counting_n1() { check_on_ack_counting::<1>(); }

//@ harness id=recovery.k.on_ack.counting.n2 kind=bounded props=C06,C10 tier=thorough timeout=1800 bound="N_SEG==2; header without SACK (non-SACK mode)" text="same as recovery.k.on_ack.counting.n0 with two outstanding segments"
#[kani::proof]
#[kani::unwind(6)]
fn on_ack_counting_n2() { check_on_ack_counting::<2>(); }

fn check_on_ack_other_phases<const N: usize>() {
    let mut segs = any_segments::<N>();
    let rp = SeqNr(kani::any());
    let h = any_plain_header();
    let mut m = any_mock();
    let last_sent = SeqNr(kani::any());
    if kani::any() {
        // a timeout recovery is in progress: duplicates are ignored until the recovery point is acked
        let mut r = Recovery { receiver_supports_sack: kani::any(), last_ack: None, phase: RecoveryPhase::IgnoringUntilRecoveryPoint { recovery_point: rp } };
        r.on_ack(&h, &any_on_ack_result(), &mut segs, last_sent, &mut m, any_instant(), Duration::from_millis(50));
        assert!(m.enter == 0 && m.recovered == 0);
        if h.ack_nr >= rp {
            assert!(matches!(r.phase, RecoveryPhase::CountingDuplicates { dup_acks: 0 }));
        } else {
            assert!(matches!(r.phase, RecoveryPhase::IgnoringUntilRecoveryPoint { recovery_point } if recovery_point == rp));
        }
    } else {
        let rec = Recovering { recovery_point: rp, high_rxt: SeqNr(kani::any()), total_retransmitted_segments: kani::any(),
            pipe_estimate: Pipe { pipe: kani::any(), recalc_timer: None }, cwnd: kani::any() };
        kani::assume(rec.cwnd <= (1 << 40));
        let mut r = Recovery { receiver_supports_sack: kani::any(), last_ack: None, phase: RecoveryPhase::Recovering(rec) };
        r.on_ack(&h, &any_on_ack_result(), &mut segs, last_sent, &mut m, any_instant(), Duration::from_millis(50));
        assert!(m.enter == 0);
        if h.ack_nr >= rp {
            // full acknowledgement: leave recovery exactly once; the old recovery cwnd becomes ssthresh
            assert!(m.recovered == 1 && m.recovered_args.1 == rec.cwnd && m.recovered_args.0 <= m.ssthresh);
            assert!(matches!(r.phase, RecoveryPhase::CountingDuplicates { dup_acks: 0 }));
        } else {
            assert!(m.recovered == 0 && r.is_recovering());
        }
    }
}

//@ harness id=recovery.k.on_ack.other.n1 kind=bounded props=C06,C10 tier=quick timeout=900 bound="N_SEG==1; header without SACK" text="Recovery::on_ack outside the counting phase: while a timeout recovery is in progress duplicate ACKs never start a fast retransmit (on_enter_recovery not called) until ack_nr >= recovery point; in fast recovery the phase ends exactly on a full acknowledgement (ack_nr >= recovery point), calling on_recovered once"
#[kani::proof]
#[kani::unwind(5)]
fn on_ack_other_n1() { check_on_ack_other_phases::<1>(); }

//@ harness id=recovery.k.vacuity kind=vacuity props=C06,C10,C05 tier=quick timeout=300 text="headers include exact duplicates of the previous ACK and window updates"
#[kani::proof]
fn vacuity() {
    let h = any_plain_header();
    let l = LastAck { window: kani::any(), ack_nr: SeqNr(kani::any()) };
    kani::cover!(h.htype == Type::ST_STATE && l.ack_nr == h.ack_nr && l.window == h.wnd_size, "exact duplicate ACK");
    kani::cover!(h.htype == Type::ST_STATE && l.ack_nr == h.ack_nr && l.window != h.wnd_size, "window update");
    kani::cover!(h.htype == Type::ST_DATA && l.ack_nr == h.ack_nr, "data packet repeating the ack number");
}
