//@ target src/stream_dispatch.rs
//@ needs txseg.rs
// Kani twins (counterexample generators, on the compiled code with real std Instants) for the small dispatcher pieces
// that Verus proves in unit vsock: Timer<NAME>, VirtualSocketState helpers, StreamArgs constructors. All loop-free.
use super::*;
use crate::stream_tx_segments::verif_kani_txseg::any_instant;

fn any_delay() -> Duration {
    let ms: u64 = kani::any();
    kani::assume(ms <= 600_000);
    Duration::from_millis(ms)
}

fn any_timer() -> Timer<TIMER_ACK_DELAY> {
    if kani::any() { Timer::Idle } else { Timer::Armed { expires_at: any_instant() } }
}

//@ harness id=timer.k.ops kind=complete props=C07,C17 tier=quick timeout=600 pairs=timer.expired,timer.take,timer.poll_at,timer.turn_off,timer.set,timer.arm.armed,timer.arm.fresh,timer.arm.never_postpones text="Timer: expired iff armed and expires_at <= now; arm on an idle timer or with restart gives now+delay; arm without restart on an armed timer gives min(old deadline, now+delay) (an armed deadline is never postponed); take/turn_off disarm; set arms at the given instant"
#[kani::proof]
#[kani::unwind(3)]
fn timer_ops() {
    let mut t = any_timer();
    let old = t;
    let now = any_instant();
    assert!(t.expired(now) == matches!(old, Timer::Armed { expires_at } if expires_at <= now));
    assert!(t.poll_at() == match old { Timer::Idle => None, Timer::Armed { expires_at } => Some(expires_at) });
    let d = any_delay();
    let restart: bool = kani::any();
    t.arm(now, d, restart, "verif");
    match (old, t) {
        (_, Timer::Idle) => assert!(false),
        (Timer::Idle, Timer::Armed { expires_at }) => assert!(expires_at == now + d),
        (Timer::Armed { expires_at: e0 }, Timer::Armed { expires_at }) => {
            if restart { assert!(expires_at == now + d); } else { assert!(expires_at == e0.min(now + d) && expires_at <= e0); }
        }
    }
    let mut u = old;
    assert!(u.take() == old && u == Timer::Idle);
    let mut v = old;
    v.turn_off("verif");
    assert!(v == Timer::Idle);
    let mut w = old;
    let at = any_instant();
    w.set(at);
    assert!(w == Timer::Armed { expires_at: at });
}

fn any_state() -> VirtualSocketState {
    match kani::any::<u8>() % 7 {
        0 => VirtualSocketState::SynReceived,
        1 => VirtualSocketState::SynAckSent { count: kani::any() },
        2 => VirtualSocketState::Established,
        3 => VirtualSocketState::FinWait1 { our_fin: SeqNr(kani::any()) },
        4 => VirtualSocketState::FinWait2,
        5 => VirtualSocketState::LastAck { our_fin: SeqNr(kani::any()), remote_fin: SeqNr(kani::any()) },
        _ => VirtualSocketState::Closed,
    }
}

//@ harness id=state.k.helpers kind=complete props=C17 tier=quick timeout=300 pairs=state.is_closed,state.to_fin_wait_1.when,state.to_fin_wait_1.effect,state.to_fin_wait_1.noop,state.is_local_fin_or_later,state.our_fin_if_unacked,state.is_remote_fin_or_later text="VirtualSocketState helpers against the table from docs/states.dot: closed = Closed or (LastAck when not waiting for the last ACK); FIN may be initiated only from SynReceived/SynAckSent/Established and records our_fin; local-fin-or-later = FinWait1/FinWait2/LastAck/Closed; our FIN is unacked exactly in FinWait1/LastAck; remote-fin-or-later = LastAck/Closed"
#[kani::proof]
fn state_helpers() {
    use VirtualSocketState::*;
    let s = any_state();
    let w: bool = kani::any();
    assert!(s.is_closed(w) == (matches!(s, Closed) || (matches!(s, LastAck { .. }) && !w)));
    assert!(s.is_local_fin_or_later() == matches!(s, Closed | FinWait1 { .. } | FinWait2 | LastAck { .. }));
    assert!(s.is_remote_fin_or_later() == matches!(s, LastAck { .. } | Closed));
    assert!(s.our_fin_if_unacked() == match s { FinWait1 { our_fin } => Some(our_fin), LastAck { our_fin, .. } => Some(our_fin), _ => None });
    let mut t = s;
    let f = SeqNr(kani::any());
    let r = t.transition_to_fin_wait_1(f);
    assert!(r == matches!(s, Established | SynReceived | SynAckSent { .. }));
    if r { assert!(t == FinWait1 { our_fin: f }); } else { assert!(t == s); }
}

//@ harness id=state.k.stream_args kind=complete props=C17,C11 tier=quick timeout=300 pairs=state.args.outgoing.ids,state.args.outgoing.seq,state.args.outgoing.ack,state.args.outgoing.state,state.args.incoming.ids,state.args.incoming.acks_the_syn,state.args.incoming.seq,state.args.incoming.state text="StreamArgs: an accepted connection acknowledges exactly the SYN's sequence number, sends with the SYN's connection id and receives on id+1; an initiated connection continues at ack_nr+1, receives on its id and sends on id+1 (all arithmetic mod 2^16)"
#[kani::proof]
#[kani::unwind(3)]
fn stream_args() {
    let h = UtpHeader { connection_id: SeqNr(kani::any()), seq_nr: SeqNr(kani::any()), ack_nr: SeqNr(kani::any()), wnd_size: kani::any(),
        timestamp_microseconds: kani::any(), ..Default::default() };
    let next: u16 = kani::any();
    let a = StreamArgs::new_incoming(SeqNr(next), &h);
    assert!(a.conn_id_send == h.connection_id && a.conn_id_recv.0 == h.connection_id.0.wrapping_add(1));
    assert!(a.last_consumed_remote_seq_nr == h.seq_nr && a.last_sent_ack_nr == h.seq_nr);
    assert!(a.seq_nr.0 == next && a.last_sent_seq_nr.0 == next.wrapping_sub(1));
    assert!(a.state == VirtualSocketState::SynReceived && a.remote_window == 0 && a.rtt.is_none());
    let t0 = any_instant();
    let b = StreamArgs::new_outgoing(&h, t0, t0 + any_delay());
    assert!(b.conn_id_recv == h.connection_id && b.conn_id_send.0 == h.connection_id.0.wrapping_add(1));
    assert!(b.seq_nr.0 == h.ack_nr.0.wrapping_add(1) && b.last_sent_seq_nr == h.ack_nr);
    assert!(b.last_consumed_remote_seq_nr.0 == h.seq_nr.0.wrapping_sub(1) && b.last_sent_ack_nr == b.last_consumed_remote_seq_nr);
    assert!(b.state == VirtualSocketState::Established && b.remote_window == h.wnd_size && b.rtt.is_some());
}
