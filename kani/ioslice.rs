//@ target src/utils.rs
// U-ioslice, Kani side: counterexample generator for contracts/ioslice.vrs (Verus proves it for all lengths).
use super::*;

//@ harness id=ioslice.k.window kind=bounded props=C01,C10 tier=quick timeout=600 bound="both ring halves <= 4 bytes" pairs=ioslice.ok_iff,ioslice.content,ioslice.split,ioslice.err_kind,ioslice.prepare_2_ioslices.safety text="prepare_2_ioslices(first, second, offset, len): Ok iff offset+len <= total; the two returned slices concatenate to (first ++ second)[offset .. offset+len]; otherwise one of the two documented Bug* errors; never panics for any usize offset/len"
#[kani::proof]
#[kani::unwind(10)]
fn window() {
    let a: [u8; 4] = kani::any();
    let b: [u8; 4] = kani::any();
    let la: usize = kani::any();
    let lb: usize = kani::any();
    kani::assume(la <= 4 && lb <= 4);
    let (first, second) = (&a[..la], &b[..lb]);
    let offset: usize = kani::any();
    let len: usize = kani::any();
    let r = prepare_2_ioslices(first, second, offset, len);
    let total = la + lb;
    let fits = offset <= total && len <= total - offset;
    assert!(r.is_ok() == fits);
    match r {
        Ok([x, y]) => {
            assert!(x.len() + y.len() == len);
            let mut i = 0;
            while i < len {
                let got = if i < x.len() { x[i] } else { y[i - x.len()] };
                let at = offset + i;
                let want = if at < la { first[at] } else { second[at - la] };
                assert!(got == want);
                i += 1;
            }
        }
        Err(e) => {
            assert!(matches!(e, Error::BugOffsetBeyondBufferBounds | Error::BugRequestedLengthExceedsBufferBounds));
            assert!(matches!(e, Error::BugOffsetBeyondBufferBounds) == (offset > total));
        }
    }
}
