//@ target src/utils.rs
// Kani harness (loop-free => complete) for the waker-slot helper every blocked reader / writer / dispatcher registration goes
// through (`update_optional_waker`): after the call the slot wakes THIS poll's task, whatever was registered before.
use super::*;
use std::sync::Arc;
use std::sync::atomic::{AtomicU32, Ordering as AtomicOrdering};
use std::task::{Context, Wake, Waker};

struct CountingWake(AtomicU32);
impl Wake for CountingWake {
    fn wake(self: Arc<Self>) { self.0.fetch_add(1, AtomicOrdering::SeqCst); }
}

//@ harness id=waker.k.slot_holds_the_latest_waker kind=complete props=C19,C03 tier=quick timeout=600 text="update_optional_waker: whether the slot was empty or held another task's waker, afterwards it holds a waker of the task that polled last (waking the slot wakes that task and not the earlier one) - the registration a Pending poll_write / poll_flush / poll_shutdown leaves behind is the current task's"
#[kani::proof]
#[kani::unwind(3)]
fn slot_holds_the_latest_waker() {
    let first = Arc::new(CountingWake(AtomicU32::new(0)));
    let latest = Arc::new(CountingWake(AtomicU32::new(0)));
    let w_first = Waker::from(first.clone());
    let w_latest = Waker::from(latest.clone());
    let mut slot: Option<Waker> = if kani::any() { Some(w_first.clone()) } else { None };
    let cx = Context::from_waker(&w_latest);
    update_optional_waker(&mut slot, &cx);
    let w = slot.take();
    assert!(w.is_some());
    w.unwrap().wake();
    assert!(latest.0.load(AtomicOrdering::SeqCst) == 1);
    assert!(first.0.load(AtomicOrdering::SeqCst) == 0);
}
