//@ target src/socket.rs
// Socket-level emission (C11): the RESET that refuses a SYN when the accept backlog is full. `Dispatcher::try_send_rst`
// is run WHOLE (async fn polled once with a no-op waker) on a partially initialised Dispatcher whose only live field is
// `socket`, itself a partially initialised UtpSocket whose only live field is a recording dummy transport (S4).
// What reaches the transport is parsed by an independent reader of the wire layout and compared with the SYN.
use super::*;
use std::cell::RefCell;
use std::future::Future;
use std::mem::MaybeUninit;
use std::pin::pin;
use std::ptr::addr_of_mut;
use std::task::{Context, Poll, Waker};

struct Rec { sent: RefCell<Option<([u8; 40], usize)>> }
unsafe impl Sync for Rec {}
impl librqbit_dualstack_sockets::PollSendToVectored for Rec {
    fn poll_send_to_vectored(&self, _cx: &mut Context<'_>, _bufs: &[std::io::IoSlice<'_>], _t: SocketAddr) -> Poll<std::io::Result<usize>> { Poll::Ready(Ok(0)) }
}
impl Transport for Rec {
    async fn recv_from<'a>(&'a self, _buf: &'a mut [u8]) -> std::io::Result<(usize, SocketAddr)> { std::future::pending().await }
    async fn send_to<'a>(&'a self, buf: &'a [u8], _target: SocketAddr) -> std::io::Result<usize> {
        let mut b = [0u8; 40];
        let n = if buf.len() < 40 { buf.len() } else { 40 };
        let mut i = 0;
        while i < n { b[i] = buf[i]; i += 1; }
        *self.sent.borrow_mut() = Some((b, buf.len()));
        Ok(buf.len())
    }
    fn poll_send_to(&self, _cx: &mut Context<'_>, buf: &[u8], _target: SocketAddr) -> Poll<std::io::Result<usize>> { Poll::Ready(Ok(buf.len())) }
    fn bind_addr(&self) -> SocketAddr { SocketAddr::from(([127, 0, 0, 1], 1)) }
}

type Sock = UtpSocket<Rec, crate::traits::DefaultUtpEnvironment>;
type Disp = Dispatcher<Rec, crate::traits::DefaultUtpEnvironment>;

//@ harness id=wire.k.rst_for_refused_syn kind=complete props=C11,C17,C13 tier=quick timeout=900 text="the datagram Dispatcher::try_send_rst hands to the transport for ANY refused SYN header: exactly 20 bytes, version 1, type ST_RESET, no extensions, and it carries the connection id the initiator put into its SYN (the id owed to that direction) and acknowledges the SYN's sequence number"
#[kani::proof]
#[kani::unwind(42)]
fn rst_for_refused_syn() {
    let syn_hdr = UtpHeader { htype: Type::ST_SYN, connection_id: SeqNr(kani::any()), seq_nr: SeqNr(kani::any()), ack_nr: SeqNr(kani::any()),
        wnd_size: kani::any(), timestamp_microseconds: kani::any(), ..Default::default() };
    let syn = Syn { remote: SocketAddr::from(([10, 0, 0, 2], 4242)), header: syn_hdr };

    // UtpSocket with only `transport` alive
    let a: Arc<MaybeUninit<Sock>> = Arc::new(MaybeUninit::uninit());
    unsafe { addr_of_mut!((*(Arc::as_ptr(&a) as *mut Sock)).transport).write(Rec { sent: RefCell::new(None) }); }
    let sock: Arc<Sock> = unsafe { Arc::from_raw(Arc::into_raw(a) as *const Sock) };
    // Dispatcher with only `socket` alive
    let mut d: Box<MaybeUninit<Disp>> = Box::new(MaybeUninit::uninit());
    let dp: *mut Disp = d.as_mut_ptr();
    unsafe { addr_of_mut!((*dp).socket).write(sock.clone()); }

    {
        let fut = unsafe { (&*dp).try_send_rst(syn) };
        let mut fut = pin!(fut);
        let mut cx = Context::from_waker(Waker::noop());
        assert!(fut.as_mut().poll(&mut cx).is_ready());
    }

    let sent = sock.transport.sent.borrow_mut().take();
    assert!(sent.is_some());
    let (b, n) = sent.unwrap();
    assert!(n == 20);
    assert!(b[0] == (3 << 4) | 1);                         // ST_RESET, version 1
    assert!(b[1] == 0);                                    // no extension
    assert!(((b[2] as u16) << 8 | b[3] as u16) == syn_hdr.connection_id.0);   // the id the initiator receives on
    assert!(((b[18] as u16) << 8 | b[19] as u16) == syn_hdr.seq_nr.0);        // acknowledges the SYN
    std::mem::forget(sock);
    std::mem::forget(d);
}
