//@ target src/seq_nr.rs
// U-seq, Kani side: SeqNr operators on the compiled code. All harnesses are loop-free over full-width inputs.
use super::*;

fn true_dist(a: u16, b: u16) -> isize {
    let d = (a as i32 - b as i32).rem_euclid(65536);
    if d > 32768 { (d - 65536) as isize } else { d as isize }
}

//@ harness id=seq.k.ops kind=complete props=C09 tier=quick timeout=300 pairs=seq.add_u16,seq.sub_u16,seq.sub_seq,seq.cmp,seq.partial_cmp,seq.add_assign,seq.sub_assign text="Add/Sub<u16> wrap mod 2^16; inside WRAP_TOLERANCE: a-b == true_dist, Ord agrees with the sign of true_dist, +=/-= agree with +/-"
#[kani::proof]
fn ops_agree_with_modular_distance() {
    let a: u16 = kani::any();
    let b: u16 = kani::any();
    let k: u16 = kani::any();
    let (sa, sb) = (SeqNr(a), SeqNr(b));
    assert!((sa + k).0 == a.wrapping_add(k));
    assert!((sa - k).0 == a.wrapping_sub(k));
    let mut m = sa;
    m += k;
    assert!(m == sa + k);
    let mut n = sa;
    n -= k;
    assert!(n == sa - k);
    let t = true_dist(a, b);
    if t.abs() <= WRAP_TOLERANCE as isize {
        assert!(sa - sb == t);
        assert!((sa > sb) == (t > 0));
        assert!((sa < sb) == (t < 0));
        assert!((sa == sb) == (t == 0));
        assert!(sa.partial_cmp(&sb) == Some(sa.cmp(&sb)));
    }
}

//@ harness id=seq.k.translation kind=complete props=C09 tier=quick timeout=300 pairs=seq.lemma.translation_invariant,seq.lemma.antisymmetric,seq.lemma.add_then_sub text="inside WRAP_TOLERANCE: (a+k)-(b+k) == a-b, a-b == -(b-a), (a+j)-a == j, ordering preserved under a common shift"
#[kani::proof]
fn translation_invariance() {
    let a: u16 = kani::any();
    let b: u16 = kani::any();
    let k: u16 = kani::any();
    let (sa, sb) = (SeqNr(a), SeqNr(b));
    kani::assume(true_dist(a, b).abs() <= WRAP_TOLERANCE as isize);
    assert!((sa + k) - (sb + k) == sa - sb);
    assert!(sa - sb == -(sb - sa));
    assert!((sa + k).cmp(&(sb + k)) == sa.cmp(&sb));
    let j: u16 = kani::any();
    kani::assume(j <= WRAP_TOLERANCE);
    assert!((sa + j) - sa == j as isize);
}

//@ harness id=seq.k.tolerance_sane kind=complete props=C09 tier=quick timeout=120 pairs=seq.lemma.tolerance_sane text="0 < WRAP_TOLERANCE < 2^15"
#[kani::proof]
fn tolerance_sane() {
    assert!(WRAP_TOLERANCE > 0 && WRAP_TOLERANCE < 32768);
}
