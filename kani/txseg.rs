//@ target src/stream_tx_segments.rs
// U-txseg, Kani side. Every harness is the inductive step of a contract: a symbolic, directly constructed
// well-formed pre-state (no history), ONE call of the real function, then the postcondition and the frame.
// Container-looping functions are bounded by the number of segments (N_SEG, stated per harness).
use super::*;
use crate::raw::selective_ack::SelectiveAck;

/// S2: Instant::now() is not available under CBMC; Instants are built from (secs, nanos).
pub fn any_instant() -> Instant {
    let secs: i64 = kani::any();
    let nanos: u32 = kani::any();
    kani::assume(nanos < 1_000_000_000);
    kani::assume(secs >= 0 && secs < (1i64 << 40));
    unsafe { std::mem::transmute::<(i64, u32), Instant>((secs, nanos)) }
}

fn any_sent() -> SentStatus {
    match kani::any::<u8>() % 3 {
        0 => SentStatus::NotSent,
        1 => SentStatus::SentTime(any_instant()),
        _ => {
            let count: usize = kani::any();
            kani::assume(count >= 1 && count < (1 << 30));
            SentStatus::Retransmitted { count, last_send_ts: any_instant() }
        }
    }
}

fn any_segment() -> Segment {
    let payload_size: usize = kani::any();
    kani::assume(payload_size <= (1 << 20));
    Segment {
        payload_size,
        payload_offset_absolute: kani::any(),
        is_delivered: kani::any(),
        sent: any_sent(),
        is_mtu_probe: kani::any(),
        is_lost: kani::any(),
        is_expired: kani::any(),
        has_sacks_after_it: kani::any(),
    }
}

/// Representation invariant (same as `Segments::wf` in contracts/txseg.vrs), executable form.
pub fn wf(s: &Segments) -> bool {
    let mut sum: u64 = 0;
    let mut i = 0;
    while i < s.segments.len() {
        let seg = &s.segments[i];
        if seg.payload_offset_absolute != s.removed_offset + sum {
            return false;
        }
        sum += seg.payload_size as u64;
        i += 1;
    }
    s.len_bytes as u64 == sum && s.offset == s.removed_offset + sum
}

/// A symbolic well-formed queue of EXACTLY N segments (concrete length keeps every loop bound concrete for CBMC;
/// the harnesses are instantiated for N = 0..=3 separately).
pub fn any_segments<const N: usize>() -> Segments {
    let mut dq = VecDeque::with_capacity(N + 1);
    let mut i = 0;
    while i < N {
        dq.push_back(any_segment());
        i += 1;
    }
    let removed_offset: u64 = kani::any();
    kani::assume(removed_offset < (1u64 << 60));
    let s = Segments {
        segments: dq,
        len_bytes: kani::any(),
        offset: kani::any(),
        removed_offset,
        sack_depth: kani::any(),
        last_sack_empty: kani::any(),
        snd_una: SeqNr(kani::any()),
    };
    kani::assume(wf(&s));
    s
}

/// (is_delivered, never sent, is_mtu_probe) of segment i - for harness modules outside this file
pub fn seg_flags(s: &Segments, i: usize) -> (bool, bool, bool) {
    let g = &s.segments[i];
    (g.is_delivered, g.send_count() == 0, g.is_mtu_probe)
}

#[derive(Clone, Copy, PartialEq)]
struct SegSnap { size: usize, off: u64, delivered: bool, probe: bool, send_count: usize }
fn snap(s: &Segments, i: usize) -> SegSnap {
    let g = &s.segments[i];
    SegSnap { size: g.payload_size, off: g.payload_offset_absolute, delivered: g.is_delivered, probe: g.is_mtu_probe, send_count: g.send_count() }
}


fn check_enqueue<const N: usize>() {
    let mut s = any_segments::<N>();
    let n0 = s.segments.len();
    let off0 = s.offset;
    let una0 = s.snd_una;
    let first = if n0 > 0 { Some(snap(&s, 0)) } else { None };
    let len: usize = kani::any();
    kani::assume(len <= (1 << 20));
    let probe: bool = kani::any();
    assert!(s.enqueue(len, probe));
    assert!(wf(&s));
    assert!(s.segments.len() == n0 + 1);
    let last = snap(&s, n0);
    assert!(last.size == len && last.off == off0 && !last.delivered && last.probe == probe && last.send_count == 0);
    assert!(s.snd_una == una0);
    if let Some(f) = first { assert!(snap(&s, 0) == f); }
}

fn check_pop_mtu_probe<const N: usize>() {
    let mut s = any_segments::<N>();
    let n0 = s.segments.len();
    let (len0, off0, una0, rem0) = (s.len_bytes, s.offset, s.snd_una, s.removed_offset);
    let last = if n0 > 0 { Some(snap(&s, n0 - 1)) } else { None };
    let seq: u16 = kani::any();
    let r = s.pop_mtu_probe(SeqNr(seq));
    assert!(wf(&s));
    assert!(s.snd_una == una0 && s.removed_offset == rem0);
    let expect = match last {
        Some(l) => l.probe && !l.delivered && SeqNr(seq) == una0 + (n0 as u16) - 1,
        None => false,
    };
    assert!(r == expect);
    if r {
        assert!(s.segments.len() == n0 - 1);
        assert!(s.len_bytes == len0 - last.unwrap().size);
        assert!(s.offset == off0 - last.unwrap().size as u64);
    } else {
        assert!(s.segments.len() == n0 && s.len_bytes == len0 && s.offset == off0);
        if n0 > 0 { assert!(snap(&s, n0 - 1) == last.unwrap()); }
    }
}

fn check_pop_expired<const N: usize>() {
    let mut s = any_segments::<N>();
    let n0 = s.segments.len();
    let (len0, off0, una0) = (s.len_bytes, s.offset, s.snd_una);
    let last = if n0 > 0 { Some((snap(&s, n0 - 1), s.segments[n0 - 1].retransmit_count())) } else { None };
    let timed_out: bool = kani::any();
    let max: usize = kani::any();
    let r = s.pop_expired_mtu_probe(timed_out, max);
    assert!(wf(&s));
    assert!(s.snd_una == una0);
    match r {
        PopExpiredProbe::Expired { rewind_to, payload_size } => {
            let (l, rc) = last.unwrap();
            assert!(l.probe && !l.delivered && timed_out && rc >= max);
            assert!(payload_size == l.size);
            assert!(s.segments.len() == n0 - 1);
            assert!(s.len_bytes == len0 - l.size && s.offset == off0 - l.size as u64);
            assert!(rewind_to == una0 + ((n0 - 1) as u16) - 1);
        }
        PopExpiredProbe::NotExpired => {
            let (l, _) = last.unwrap();
            assert!(l.probe && !l.delivered);
            assert!(s.segments.len() == n0 && s.len_bytes == len0 && s.offset == off0);
        }
        PopExpiredProbe::Empty => {
            assert!(s.segments.len() == n0 && s.len_bytes == len0 && s.offset == off0);
            if let Some((l, _)) = last { assert!(l.delivered || !l.probe); }
        }
    }
}

fn check_remove_cum<const N: usize>() {
    let mut s = any_segments::<N>();
    // invariant established by remove_up_to_ack itself: the front segment is never delivered
    if s.segments.len() > 0 { kani::assume(!s.segments[0].is_delivered); }
    let n0 = s.segments.len();
    let (len0, off0, una0, rem0) = (s.len_bytes, s.offset, s.snd_una, s.removed_offset);
    let mut sizes = [0usize; N];
    let mut offs = [0u64; N];
    let mut deliv = [false; N];
    let mut i = 0;
    while i < n0 { sizes[i] = s.segments[i].payload_size; offs[i] = s.segments[i].payload_offset_absolute; deliv[i] = s.segments[i].is_delivered; i += 1; }
    let ack: u16 = kani::any();
    let hdr = UtpHeader { ack_nr: SeqNr(ack), ..Default::default() };
    let r = s.remove_up_to_ack(any_instant(), &hdr);
    // representation invariant and accounting
    assert!(wf(&s));
    let k = r.acked_segments_count;
    assert!(k <= n0 && s.segments.len() == n0 - k);
    assert!(s.snd_una == una0 + k as u16);
    assert!(s.offset == off0);
    assert!(s.removed_offset - rem0 == r.acked_bytes as u64);
    assert!(len0 - s.len_bytes == r.acked_bytes);
    let mut sum = 0usize;
    let mut i = 0;
    while i < k { sum += sizes[i]; i += 1; }
    assert!(r.acked_bytes == sum);
    // what was removed: exactly the cumulatively acked prefix, extended over an already-delivered run
    let d = SeqNr(ack) - una0;
    let cum = if d >= 0 { core::cmp::min(d as usize + 1, n0) } else { 0 };
    let mut want = cum;
    while want < n0 && deliv[want] { want += 1; }
    assert!(k == want);
    // frame: the retained segments are the old suffix, unchanged (sizes, absolute offsets, delivered flags: no SACK here)
    let mut i = 0;
    while i < n0 - k {
        let g = &s.segments[i];
        assert!(g.payload_size == sizes[i + k] && g.payload_offset_absolute == offs[i + k] && g.is_delivered == deliv[i + k]);
        i += 1;
    }
    if s.segments.len() > 0 { assert!(!s.segments[0].is_delivered); }
    assert!(r.newly_sacked_segment_count == 0 && r.newly_sacked_byte_count == 0);
}

fn check_flight<const N: usize>() {
    let s = any_segments::<N>();
    let last_sent: u16 = kani::any();
    let r = s.calc_flight_size(SeqNr(last_sent));
    // oracle from the statement: payload of undelivered segments with seq_nr <= last_sent_seq_nr
    let d = SeqNr(last_sent) - s.snd_una;
    let take = if d + 1 > 0 { (d + 1) as usize } else { 0 };
    let mut want = 0usize;
    let mut i = 0;
    while i < s.segments.len() && i < take {
        if !s.segments[i].is_delivered { want += s.segments[i].payload_size; }
        i += 1;
    }
    assert!(r == want);
    assert!(r <= s.len_bytes);
}

fn check_iter<const N: usize>() {
    let mut s = any_segments::<N>();
    let n0 = s.segments.len();
    let una0 = s.snd_una;
    let rem0 = s.removed_offset;
    let mut sizes = [0usize; N];
    let mut offs = [0u64; N];
    let mut deliv = [false; N];
    let mut i = 0;
    while i < n0 { sizes[i] = s.segments[i].payload_size; offs[i] = s.segments[i].payload_offset_absolute; deliv[i] = s.segments[i].is_delivered; i += 1; }
    let start: Option<SeqNr> = if kani::any() { Some(SeqNr(kani::any())) } else { None };
    let from = match start { Some(st) => { let d = st - una0; if d > 0 { d as usize } else { 0 } } None => 0 };
    let mut expect_idx = from;
    let mut yielded = 0usize;
    for item in s.iter_mut_for_sending(start) {
        // next undelivered index at or after expect_idx
        while expect_idx < n0 && deliv[expect_idx] { expect_idx += 1; }
        assert!(expect_idx < n0);
        assert!(!item.is_delivered());
        assert!(item.seq_nr() == una0 + expect_idx as u16);
        assert!(item.payload_size() == sizes[expect_idx]);
        assert!(item.payload_offset() as u64 == offs[expect_idx] - rem0);
        // == sum of the sizes of all earlier segments still in the queue: the byte range inside the user ring
        let mut pre = 0usize; let mut j = 0; while j < expect_idx { pre += sizes[j]; j += 1; }
        assert!(item.payload_offset() == pre);
        expect_idx += 1;
        yielded += 1;
    }
    // nothing undelivered at or after `from` was skipped
    while expect_idx < n0 { assert!(deliv[expect_idx]); expect_idx += 1; }
    assert!(yielded <= n0);
}

fn check_calc_pipe<const N: usize>() {
    let mut s = any_segments::<N>();
    kani::assume(s.sack_depth <= 64);
    let n0 = s.segments.len();
    let total = s.len_bytes;
    let first = if n0 > 0 { Some(snap(&s, 0)) } else { None };
    let rtt_ms: u64 = kani::any();
    kani::assume(rtt_ms <= 120_000);
    let high_data = SeqNr(kani::any());
    // precondition A12 (dispatcher invariant, assumed): high_data (= last_sent_seq_nr) <= snd_una + queued segments
    kani::assume(high_data - s.snd_una <= N as isize);
    let p = s.calc_pipe(SeqNr(kani::any()), high_data, Duration::from_millis(rtt_ms), any_instant());
    assert!(p.pipe <= 2 * total);
    assert!(wf(&s));
    assert!(s.segments.len() == n0);
    if let Some(f) = first { assert!(snap(&s, 0) == f); }
}

//@ harness id=txseg.k.enqueue.n0 kind=bounded props=C01,C14 tier=quick timeout=600 bound="N_SEG==0" pairs=txseg.enqueue.wf,txseg.enqueue.view,txseg.enqueue.accepts,txseg.enqueue.frame,txseg.enqueue.safety text="enqueue from any wf queue: wf kept, one fresh undelivered unsent segment appended at absolute offset == old offset, earlier segments untouched"
#[kani::proof]
#[kani::unwind(3)]
fn enqueue_n0() { check_enqueue::<0>(); }

//@ harness id=txseg.k.enqueue.n1 kind=bounded props=C01,C14 tier=quick timeout=600 bound="N_SEG==1" pairs=txseg.enqueue.wf,txseg.enqueue.view,txseg.enqueue.accepts,txseg.enqueue.frame,txseg.enqueue.safety text="enqueue from any wf queue: wf kept, one fresh undelivered unsent segment appended at absolute offset == old offset, earlier segments untouched"
#[kani::proof]
#[kani::unwind(4)]
fn enqueue_n1() { check_enqueue::<1>(); }

//@ harness id=txseg.k.enqueue.n2 kind=bounded props=C01,C14 tier=quick timeout=600 bound="N_SEG==2" pairs=txseg.enqueue.wf,txseg.enqueue.view,txseg.enqueue.accepts,txseg.enqueue.frame,txseg.enqueue.safety text="enqueue from any wf queue: wf kept, one fresh undelivered unsent segment appended at absolute offset == old offset, earlier segments untouched"
#[kani::proof]
#[kani::unwind(5)]
fn enqueue_n2() { check_enqueue::<2>(); }

//@ harness id=txseg.k.enqueue.n3 kind=bounded props=C01,C14 tier=quick timeout=1200 bound="N_SEG==3" pairs=txseg.enqueue.wf,txseg.enqueue.view,txseg.enqueue.accepts,txseg.enqueue.frame,txseg.enqueue.safety text="enqueue from any wf queue: wf kept, one fresh undelivered unsent segment appended at absolute offset == old offset, earlier segments untouched"
#[kani::proof]
#[kani::unwind(6)]
fn enqueue_n3() { check_enqueue::<3>(); }

//@ harness id=txseg.k.pop_mtu_probe.n0 kind=bounded props=C01,C06,C14 tier=quick timeout=600 bound="N_SEG==0" pairs=txseg.pop_probe.wf,txseg.pop_probe.when,txseg.pop_probe.view,txseg.pop_probe.noop,txseg.pop_probe.frame,txseg.pop_mtu_probe.safety text="pop_mtu_probe from any wf queue: wf kept (byte counters restored), pops iff the last segment is an undelivered probe with that seq_nr, otherwise identity"
#[kani::proof]
#[kani::unwind(3)]
fn pop_mtu_probe_n0() { check_pop_mtu_probe::<0>(); }

//@ harness id=txseg.k.pop_mtu_probe.n1 kind=bounded props=C01,C06,C14 tier=quick timeout=600 bound="N_SEG==1" pairs=txseg.pop_probe.wf,txseg.pop_probe.when,txseg.pop_probe.view,txseg.pop_probe.noop,txseg.pop_probe.frame,txseg.pop_mtu_probe.safety text="pop_mtu_probe from any wf queue: wf kept (byte counters restored), pops iff the last segment is an undelivered probe with that seq_nr, otherwise identity"
#[kani::proof]
#[kani::unwind(4)]
fn pop_mtu_probe_n1() { check_pop_mtu_probe::<1>(); }

//@ harness id=txseg.k.pop_mtu_probe.n2 kind=bounded props=C01,C06,C14 tier=quick timeout=600 bound="N_SEG==2" pairs=txseg.pop_probe.wf,txseg.pop_probe.when,txseg.pop_probe.view,txseg.pop_probe.noop,txseg.pop_probe.frame,txseg.pop_mtu_probe.safety text="pop_mtu_probe from any wf queue: wf kept (byte counters restored), pops iff the last segment is an undelivered probe with that seq_nr, otherwise identity"
#[kani::proof]
#[kani::unwind(5)]
fn pop_mtu_probe_n2() { check_pop_mtu_probe::<2>(); }

//@ harness id=txseg.k.pop_mtu_probe.n3 kind=bounded props=C01,C06,C14 tier=quick timeout=1200 bound="N_SEG==3" pairs=txseg.pop_probe.wf,txseg.pop_probe.when,txseg.pop_probe.view,txseg.pop_probe.noop,txseg.pop_probe.frame,txseg.pop_mtu_probe.safety text="pop_mtu_probe from any wf queue: wf kept (byte counters restored), pops iff the last segment is an undelivered probe with that seq_nr, otherwise identity"
#[kani::proof]
#[kani::unwind(6)]
fn pop_mtu_probe_n3() { check_pop_mtu_probe::<3>(); }

//@ harness id=txseg.k.pop_expired.n0 kind=bounded props=C01,C06,C14 tier=quick timeout=600 bound="N_SEG==0" pairs=txseg.pop_expired.wf,txseg.pop_expired.expired,txseg.pop_expired.not_expired,txseg.pop_expired.empty,txseg.pop_expired.noop_counters,txseg.pop_expired.frame,txseg.pop_expired_mtu_probe.safety text="pop_expired_mtu_probe from any wf queue: wf kept (byte counters restored on Expired), Expired only for an undelivered probe whose retransmit count reached the limit while the RTO fired; rewind_to is the sequence number before the probe"
#[kani::proof]
#[kani::unwind(3)]
fn pop_expired_n0() { check_pop_expired::<0>(); }

//@ harness id=txseg.k.pop_expired.n1 kind=bounded props=C01,C06,C14 tier=quick timeout=600 bound="N_SEG==1" pairs=txseg.pop_expired.wf,txseg.pop_expired.expired,txseg.pop_expired.not_expired,txseg.pop_expired.empty,txseg.pop_expired.noop_counters,txseg.pop_expired.frame,txseg.pop_expired_mtu_probe.safety text="pop_expired_mtu_probe from any wf queue: wf kept (byte counters restored on Expired), Expired only for an undelivered probe whose retransmit count reached the limit while the RTO fired; rewind_to is the sequence number before the probe"
#[kani::proof]
#[kani::unwind(4)]
fn pop_expired_n1() { check_pop_expired::<1>(); }

//@ harness id=txseg.k.pop_expired.n2 kind=bounded props=C01,C06,C14 tier=quick timeout=600 bound="N_SEG==2" pairs=txseg.pop_expired.wf,txseg.pop_expired.expired,txseg.pop_expired.not_expired,txseg.pop_expired.empty,txseg.pop_expired.noop_counters,txseg.pop_expired.frame,txseg.pop_expired_mtu_probe.safety text="pop_expired_mtu_probe from any wf queue: wf kept (byte counters restored on Expired), Expired only for an undelivered probe whose retransmit count reached the limit while the RTO fired; rewind_to is the sequence number before the probe"
#[kani::proof]
#[kani::unwind(5)]
fn pop_expired_n2() { check_pop_expired::<2>(); }

//@ harness id=txseg.k.pop_expired.n3 kind=bounded props=C01,C06,C14 tier=quick timeout=1200 bound="N_SEG==3" pairs=txseg.pop_expired.wf,txseg.pop_expired.expired,txseg.pop_expired.not_expired,txseg.pop_expired.empty,txseg.pop_expired.noop_counters,txseg.pop_expired.frame,txseg.pop_expired_mtu_probe.safety text="pop_expired_mtu_probe from any wf queue: wf kept (byte counters restored on Expired), Expired only for an undelivered probe whose retransmit count reached the limit while the RTO fired; rewind_to is the sequence number before the probe"
#[kani::proof]
#[kani::unwind(6)]
fn pop_expired_n3() { check_pop_expired::<3>(); }

//@ harness id=txseg.k.remove_cum.n0 kind=bounded props=C01,C06,C10,C09 tier=quick timeout=600 bound="N_SEG==0" text="remove_up_to_ack, cumulative ACK (header without SACK), any ack_nr incl. ACKs of data never sent and stale ACKs: no panic, wf kept, exactly the acked prefix (plus delivered run) removed, snd_una/removed_offset/acked_bytes agree, retained suffix unchanged"
#[kani::proof]
#[kani::unwind(3)]
fn remove_cum_n0() { check_remove_cum::<0>(); }

//@ harness id=txseg.k.remove_cum.n1 kind=bounded props=C01,C06,C10,C09 tier=quick timeout=600 bound="N_SEG==1" text="remove_up_to_ack, cumulative ACK (header without SACK), any ack_nr incl. ACKs of data never sent and stale ACKs: no panic, wf kept, exactly the acked prefix (plus delivered run) removed, snd_una/removed_offset/acked_bytes agree, retained suffix unchanged"
#[kani::proof]
#[kani::unwind(4)]
fn remove_cum_n1() { check_remove_cum::<1>(); }

//@ harness id=txseg.k.remove_cum.n2 kind=bounded props=C01,C06,C10,C09 tier=quick timeout=600 bound="N_SEG==2" text="remove_up_to_ack, cumulative ACK (header without SACK), any ack_nr incl. ACKs of data never sent and stale ACKs: no panic, wf kept, exactly the acked prefix (plus delivered run) removed, snd_una/removed_offset/acked_bytes agree, retained suffix unchanged"
#[kani::proof]
#[kani::unwind(5)]
fn remove_cum_n2() { check_remove_cum::<2>(); }

//@ harness id=txseg.k.remove_cum.n3 kind=bounded props=C01,C06,C10,C09 tier=quick timeout=1200 bound="N_SEG==3" text="remove_up_to_ack, cumulative ACK (header without SACK), any ack_nr incl. ACKs of data never sent and stale ACKs: no panic, wf kept, exactly the acked prefix (plus delivered run) removed, snd_una/removed_offset/acked_bytes agree, retained suffix unchanged"
#[kani::proof]
#[kani::unwind(6)]
fn remove_cum_n3() { check_remove_cum::<3>(); }

//@ harness id=txseg.k.flight.n0 kind=bounded props=C05,C10,C09 tier=quick timeout=600 bound="N_SEG==0" text="calc_flight_size(last_sent) == sum of payload sizes of undelivered segments with index <= last_sent - snd_una (0 when behind); <= total queued bytes; no panic for any last_sent"
#[kani::proof]
#[kani::unwind(3)]
fn flight_n0() { check_flight::<0>(); }

//@ harness id=txseg.k.flight.n1 kind=bounded props=C05,C10,C09 tier=quick timeout=600 bound="N_SEG==1" text="calc_flight_size(last_sent) == sum of payload sizes of undelivered segments with index <= last_sent - snd_una (0 when behind); <= total queued bytes; no panic for any last_sent"
#[kani::proof]
#[kani::unwind(4)]
fn flight_n1() { check_flight::<1>(); }

//@ harness id=txseg.k.flight.n2 kind=bounded props=C05,C10,C09 tier=quick timeout=600 bound="N_SEG==2" text="calc_flight_size(last_sent) == sum of payload sizes of undelivered segments with index <= last_sent - snd_una (0 when behind); <= total queued bytes; no panic for any last_sent"
#[kani::proof]
#[kani::unwind(5)]
fn flight_n2() { check_flight::<2>(); }

//@ harness id=txseg.k.flight.n3 kind=bounded props=C05,C10,C09 tier=quick timeout=1200 bound="N_SEG==3" text="calc_flight_size(last_sent) == sum of payload sizes of undelivered segments with index <= last_sent - snd_una (0 when behind); <= total queued bytes; no panic for any last_sent"
#[kani::proof]
#[kani::unwind(6)]
fn flight_n3() { check_flight::<3>(); }

//@ harness id=txseg.k.iter.n0 kind=bounded props=C01,C06,C10,C09 tier=quick timeout=600 bound="N_SEG==0" text="iter_mut_for_sending(start): yields exactly the undelivered segments at index >= max(0, start - snd_una), in order, with seq_nr == snd_una + index and payload_offset == absolute offset - removed_offset == sum of earlier sizes; a delivered (acked) segment is never yielded; checked_sub().unwrap() never panics"
#[kani::proof]
#[kani::unwind(3)]
fn iter_n0() { check_iter::<0>(); }

//@ harness id=txseg.k.iter.n1 kind=bounded props=C01,C06,C10,C09 tier=quick timeout=600 bound="N_SEG==1" text="iter_mut_for_sending(start): yields exactly the undelivered segments at index >= max(0, start - snd_una), in order, with seq_nr == snd_una + index and payload_offset == absolute offset - removed_offset == sum of earlier sizes; a delivered (acked) segment is never yielded; checked_sub().unwrap() never panics"
#[kani::proof]
#[kani::unwind(4)]
fn iter_n1() { check_iter::<1>(); }

//@ harness id=txseg.k.iter.n2 kind=bounded props=C01,C06,C10,C09 tier=quick timeout=600 bound="N_SEG==2" text="iter_mut_for_sending(start): yields exactly the undelivered segments at index >= max(0, start - snd_una), in order, with seq_nr == snd_una + index and payload_offset == absolute offset - removed_offset == sum of earlier sizes; a delivered (acked) segment is never yielded; checked_sub().unwrap() never panics"
#[kani::proof]
#[kani::unwind(5)]
fn iter_n2() { check_iter::<2>(); }

//@ harness id=txseg.k.iter.n3 kind=bounded props=C01,C06,C10,C09 tier=quick timeout=1200 bound="N_SEG==3" text="iter_mut_for_sending(start): yields exactly the undelivered segments at index >= max(0, start - snd_una), in order, with seq_nr == snd_una + index and payload_offset == absolute offset - removed_offset == sum of earlier sizes; a delivered (acked) segment is never yielded; checked_sub().unwrap() never panics"
#[kani::proof]
#[kani::unwind(6)]
fn iter_n3() { check_iter::<3>(); }

//@ harness id=txseg.k.calc_pipe.n0 kind=bounded props=C10 tier=quick timeout=1200 bound="N_SEG==0" text="calc_pipe for any high_rxt and any high_data <= snd_una + queue length (A12): no panic; pipe <= 2 * queued bytes; sizes/offsets untouched"
#[kani::proof]
#[kani::unwind(3)]
fn calc_pipe_n0() { check_calc_pipe::<0>(); }

//@ harness id=txseg.k.calc_pipe.n1 kind=bounded props=C10 tier=quick timeout=1200 bound="N_SEG==1" text="calc_pipe for any high_rxt and any high_data <= snd_una + queue length (A12): no panic; pipe <= 2 * queued bytes; sizes/offsets untouched"
#[kani::proof]
#[kani::unwind(4)]
fn calc_pipe_n1() { check_calc_pipe::<1>(); }

//@ harness id=txseg.k.calc_pipe.n2 kind=bounded props=C10 tier=thorough timeout=1500 bound="N_SEG==2" text="calc_pipe for any high_rxt and any high_data <= snd_una + queue length (A12): no panic; pipe <= 2 * queued bytes; sizes/offsets untouched"
#[kani::proof]
#[kani::unwind(5)]
fn calc_pipe_n2() { check_calc_pipe::<2>(); }

//@ harness id=txseg.k.calc_pipe.n3 kind=bounded props=C10 tier=thorough timeout=1500 bound="N_SEG==3" text="calc_pipe for any high_rxt and any high_data <= snd_una + queue length (A12): no panic; pipe <= 2 * queued bytes; sizes/offsets untouched"
#[kani::proof]
#[kani::unwind(6)]
fn calc_pipe_n3() { check_calc_pipe::<3>(); }

//@ harness id=txseg.k.on_sent kind=complete props=C06 tier=quick timeout=600 text="SegmentForSending::on_sent: send_count increases by exactly one, the first send (and only it) records SentTime(now), which is the only state update_rtt samples (Karn); payload size/offset/flags untouched"
#[kani::proof]
fn on_sent_step() {
    let mut seg = any_segment();
    let before = SegSnap { size: seg.payload_size, off: seg.payload_offset_absolute, delivered: seg.is_delivered, probe: seg.is_mtu_probe, send_count: seg.send_count() };
    let was_unsent = matches!(seg.sent, SentStatus::NotSent);
    let now = any_instant();
    {
        let mut sfs = SegmentForSending { segment: &mut seg, seq_nr: SeqNr(kani::any()), payload_offset: kani::any() };
        sfs.on_sent(now);
    }
    assert!(seg.send_count() == before.send_count + 1);
    assert!(seg.payload_size == before.size && seg.payload_offset_absolute == before.off && seg.is_delivered == before.delivered && seg.is_mtu_probe == before.probe);
    assert!(matches!(seg.sent, SentStatus::SentTime(t) if t == now) == was_unsent);
    assert!(seg.last_sent() == Some(now));
}

//@ harness id=txseg.k.remove_sack.attempt kind=attempt props=C01,C06,C10 tier=thorough timeout=1200 bound="N_SEG==2; SACK of 8 symbolic bytes" text="remove_up_to_ack with a selective ACK: no panic, wf kept, a set bit k marks exactly segment ack_nr+2+k delivered, sizes/offsets untouched (attempt-class: bitvec iteration is at CBMC's limit)"
#[kani::proof]
#[kani::unwind(66)]
fn remove_sack_attempt() {
    let mut s = any_segments::<2>();
    if s.segments.len() > 0 { kani::assume(!s.segments[0].is_delivered); }
    let n0 = s.segments.len();
    let una0 = s.snd_una;
    let mut sizes = [0usize; 2];
    let mut deliv = [false; 2];
    let mut i = 0;
    while i < n0 { sizes[i] = s.segments[i].payload_size; deliv[i] = s.segments[i].is_delivered; i += 1; }
    let ack: u16 = kani::any();
    let bytes: [u8; 8] = kani::any();
    let mut hdr = UtpHeader { ack_nr: SeqNr(ack), ..Default::default() };
    hdr.extensions.selective_ack = Some(SelectiveAck::deserialize(&bytes));
    let r = s.remove_up_to_ack(any_instant(), &hdr);
    assert!(wf(&s));
    assert!(s.snd_una == una0 + r.acked_segments_count as u16);
    // a segment that stays in the queue and is now delivered was either delivered before or named by a SACK bit
    let k = r.acked_segments_count;
    let mut i = 0;
    while i < n0 - k {
        let g = &s.segments[i];
        assert!(g.payload_size == sizes[i + k]);
        if g.is_delivered && !deliv[i + k] {
            let bit = (una0 + (i + k) as u16) - (SeqNr(ack) + 2);
            assert!(bit >= 0 && bit < 64);
            assert!((bytes[(bit / 8) as usize] >> (bit % 8)) & 1 == 1);
        }
        i += 1;
    }
}

// remove_up_to_ack with a ONE-byte selective ACK (8 packets) on exactly N segments. `stale`: only ACKs whose ack_nr is behind
// snd_una - 1 (an old/reordered ACK whose bitmap reaches the queue front: the cumulative drain is skipped, the front-cleanup loop runs).
fn check_remove_sack1<const N: usize>(stale: bool) {
    let mut s = any_segments::<N>();
    let n0 = s.segments.len();
    let una0 = s.snd_una;
    let off0 = s.removed_offset;
    let len0 = s.len_bytes;
    let mut sizes = [0usize; N];
    let mut deliv = [false; N];
    let mut i = 0;
    while i < n0 { sizes[i] = s.segments[i].payload_size; deliv[i] = s.segments[i].is_delivered; i += 1; }
    let ack: u16 = kani::any();
    if stale { kani::assume(SeqNr(ack) - una0 < 0); }
    let bytes: [u8; 1] = kani::any();
    let mut hdr = UtpHeader { ack_nr: SeqNr(ack), ..Default::default() };
    hdr.extensions.selective_ack = Some(SelectiveAck::deserialize(&bytes));
    let r = s.remove_up_to_ack(any_instant(), &hdr);
    // byte accounting survives (C01/C06: the offsets the sender reads payload from stay those of the remaining segments)
    assert!(wf(&s));
    let k = r.acked_segments_count;
    assert!(k <= n0 && s.segments.len() == n0 - k);
    assert!(s.snd_una == una0 + k as u16);
    assert!(s.removed_offset == off0 + r.acked_bytes as u64 && s.len_bytes + r.acked_bytes == len0);
    let mut sum = 0usize;
    let mut i = 0;
    while i < k { sum += sizes[i]; i += 1; }
    assert!(r.acked_bytes == sum);
    // a segment that stays in the queue keeps its size and is delivered only if it was before or a SACK bit names it
    let mut i = 0;
    while i < n0 - k {
        let g = &s.segments[i];
        assert!(g.payload_size == sizes[i + k]);
        if g.is_delivered && !deliv[i + k] {
            let bit = (una0 + (i + k) as u16) - (SeqNr(ack) + 2);
            assert!(bit >= 0 && bit < 8);
            assert!((bytes[0] >> bit) & 1 == 1);
        }
        i += 1;
    }
    // the front of the queue is never left delivered (acknowledged data is released at once)
    if s.segments.len() > 0 { assert!(!s.segments[0].is_delivered); }
}

//@ harness id=txseg.k.remove_sack1.stale.n1.attempt kind=attempt props=C01,C06,C10 tier=thorough timeout=1500 bound="N_SEG==1; SACK of 1 symbolic byte; ack_nr behind snd_una" text="remove_up_to_ack, stale selective ACK reaching the queue front: no panic, byte accounting (removed_offset, len_bytes, snd_una, acked_bytes) advances by exactly the released segments, remaining segments keep size and offsets, only SACK-named segments become delivered, the front is never left delivered (attempt-class: measured > 900 s even for one segment - bitvec iteration zipped with VecDeque::iter_mut is at CBMC's limit)"
#[kani::proof]
#[kani::unwind(10)]
fn remove_sack1_stale_n1() { check_remove_sack1::<1>(true); }

//@ harness id=txseg.k.vacuity kind=vacuity props=C01,C06,C10,C14,C05,C09 tier=quick timeout=300 text="the symbolic wf pre-state admits: a trailing probe, delivered segments behind the front, sequence numbers at the 16-bit wrap, non-uniform sizes"
#[kani::proof]
#[kani::unwind(5)]
fn vacuity() {
    let s = any_segments::<2>();
    kani::cover!(s.segments[1].is_mtu_probe && !s.segments[1].is_delivered, "trailing undelivered probe");
    kani::cover!(s.segments[1].is_delivered && !s.segments[0].is_delivered, "delivered behind the front");
    kani::cover!(s.snd_una.0 == 65535, "queue straddles the 16-bit wrap");
    kani::cover!(s.segments[0].payload_size != s.segments[1].payload_size && s.removed_offset > 0, "non-uniform sizes after earlier removals");
}
