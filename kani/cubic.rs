//@ target src/congestion/cubic.rs
// NOTE: std's Timespec::sub_timespec (behind `Instant - Instant`) is recursive; harnesses that reach it carry
// #[kani::unwind(3)] (two levels suffice; the unwinding assertion stays on), otherwise CBMC unwinds forever.
// U-cubic (C15, C05): the CUBIC controller on IEEE-754 doubles, bit-precise (CBMC float model). Every harness is
// loop-free. `cbrt` / `powf` are not modelled by CBMC: calc_k and w_cubic are stubbed by functions returning an
// ARBITRARY f64 (including NaN and infinities) - a sound over-approximation; the final clamp must cope with them.
// Type invariant used as precondition: mss in [1, 65535]; rwnd finite, 0 <= rwnd <= 2^32; cwnd finite, 0 <= cwnd <= 2^40.
use super::*;

fn any_instant() -> Instant {
    let secs: i64 = kani::any();
    let nanos: u32 = kani::any();
    kani::assume(nanos < 1_000_000_000);
    kani::assume(secs >= 0 && secs < (1i64 << 40));
    unsafe { std::mem::transmute::<(i64, u32), Instant>((secs, nanos)) }
}

fn stub_calc_k(_w: f64) -> f64 { kani::any() }
fn stub_w_cubic(_t: Duration, _k: f64, _w: f64) -> f64 { kani::any() }
fn stub_w_est(_t: Duration, _rtt: Duration, _w: f64) -> f64 { kani::any() }
fn stub_rtt(_r: &RttEstimator) -> Duration {
    let ms: u64 = kani::any();
    kani::assume(ms >= 1 && ms <= 60_000);
    Duration::from_millis(ms)
}

const TWO32: f64 = 4294967296.0;
const TWO40: f64 = 1099511627776.0;

/// Any controller state; `cwnd_any` lifts the restriction on cwnd (NaN / inf / negative allowed).
fn any_cubic(cwnd_any: bool) -> Cubic {
    let c = Cubic {
        cwnd: kani::any(), ssthresh: kani::any(), k: kani::any(), w_max: kani::any(), w_max_last: kani::any(),
        mss: kani::any(), last_congestion_event: any_instant(), rwnd: kani::any(),
    };
    kani::assume(c.mss >= 1 && c.mss <= 65535);
    kani::assume(c.rwnd >= 0.0 && c.rwnd <= TWO32);
    if !cwnd_any { kani::assume(c.cwnd >= 0.0 && c.cwnd <= TWO40); }
    kani::assume(!c.ssthresh.is_nan());
    c
}

/// The window in segments that `window()` multiplies by the MSS.
fn eff(c: &Cubic) -> f64 { c.cwnd.max(2.).min(c.rwnd) }

//@ harness id=cubic.k.window_clamped kind=complete props=C15,C05 tier=quick timeout=300 text="for ANY cwnd bit pattern (NaN, +-inf, negative included) and any finite peer window rwnd >= 0: the effective window max(cwnd,2) min rwnd is finite and lies between min(2, rwnd) and rwnd"
#[kani::proof]
fn window_clamped() {
    let c = any_cubic(true);
    let e = eff(&c);
    assert!(e.is_finite());
    assert!(e <= c.rwnd);
    assert!(e >= if c.rwnd < 2. { c.rwnd } else { 2. });
}

//@ harness id=cubic.k.new kind=complete props=C15,C05 tier=quick timeout=300 text="Cubic::new: cwnd == 2 segments, ssthresh == +inf (slow start), peer window 0 until told; after set_remote_window(w): rwnd == w/mss, finite, >= 0; window() never panics"
#[kani::proof]
fn new_state() {
    let mss: usize = kani::any();
    kani::assume(mss >= 1 && mss <= 65535);
    let mut c = Cubic::new(any_instant(), mss);
    assert!(c.cwnd == 2. && c.ssthresh == f64::INFINITY && c.rwnd == 0. && c.mss == mss);
    assert!(c.window() == 0);
    let w: usize = kani::any();
    kani::assume(w <= u32::MAX as usize);
    c.set_remote_window(w);
    assert!(c.rwnd.is_finite() && c.rwnd >= 0. && c.rwnd <= TWO32);
    assert!(c.smss() == mss);
    let _ = c.window();
}

//@ harness id=cubic.k.window_bytes_le_peer_window.attempt kind=attempt props=C15,C05 tier=thorough timeout=900 text="window() in bytes never exceeds the peer window in bytes: (eff * mss) as usize <= (rwnd * mss) as usize, and window() == (max(cwnd,2) min rwnd) * mss truncated"
#[kani::proof]
fn window_bytes_le_peer_window() {
    let c = any_cubic(true);
    let w = c.window();
    assert!(w == (eff(&c) * c.mss as f64) as usize);
    assert!(w <= (c.rwnd * c.mss as f64) as usize);
}

//@ harness id=cubic.k.rto kind=complete props=C15,C05 tier=quick timeout=600 text="on_retransmission_timeout: cwnd' == 1 (one segment until new data is acked), ssthresh' >= 2 and <= max(cwnd, 2), w_max' == cwnd, effective window not increased, everything else untouched"
#[kani::proof]
fn rto() {
    let mut c = any_cubic(false);
    let old = c;
    c.on_retransmission_timeout(any_instant());
    assert!(c.cwnd == 1.);
    assert!(c.ssthresh >= 2.);
    assert!(c.ssthresh <= old.cwnd.max(2.));
    assert!(c.w_max == old.cwnd);
    assert!(eff(&c) <= eff(&old));
    assert!(c.mss == old.mss && c.rwnd == old.rwnd);
}

//@ harness id=cubic.k.enter_recovery kind=complete props=C15 tier=quick timeout=600 text="on_enter_recovery (calc_k stubbed by an arbitrary f64): cwnd' <= cwnd, ssthresh' == max(cwnd', 2) >= 2, effective window not increased, mss/rwnd untouched"
#[kani::proof]
#[kani::stub(calc_k, stub_calc_k)]
fn enter_recovery() {
    let mut c = any_cubic(false);
    kani::assume(c.w_max.is_finite() && c.w_max_last.is_finite());
    let old = c;
    c.on_enter_recovery(any_instant());
    assert!(c.cwnd <= old.cwnd && c.cwnd >= 0.);
    assert!(c.ssthresh == c.cwnd.max(2.) && c.ssthresh >= 2.);
    assert!(c.ssthresh <= old.cwnd.max(2.));
    assert!(eff(&c) <= eff(&old));
    assert!(c.mss == old.mss && c.rwnd == old.rwnd);
    assert!(c.w_max_last == old.cwnd);
}

//@ harness id=cubic.k.on_ack kind=complete props=C15,C05 tier=quick timeout=900 text="on_ack (w_cubic and w_est stubbed by arbitrary f64 incl. NaN/inf; RTT any 1 ms..60 s): a zero-length ACK changes nothing; at or above the peer window nothing changes; otherwise cwnd' is finite, >= 2 and <= max(rwnd, 2); mss/rwnd/ssthresh untouched"
#[kani::proof]
#[kani::unwind(3)]
#[kani::stub(w_cubic, stub_w_cubic)]
#[kani::stub(w_est, stub_w_est)]
#[kani::stub(crate::rtte::RttEstimator::roundtrip_time, stub_rtt)]
fn on_ack_step() {
    let mut c = any_cubic(false);
    kani::assume(c.w_max.is_finite() && c.w_max >= 0. && c.w_max <= TWO40 && c.k.is_finite());
    let old = c;
    let len: usize = kani::any();
    kani::assume(len <= (1 << 32));
    let rtte = RttEstimator::default();
    c.on_ack(any_instant(), len, &rtte);
    assert!(c.mss == old.mss && c.rwnd == old.rwnd && c.ssthresh == old.ssthresh);
    if len == 0 || old.cwnd >= old.rwnd {
        assert!(c.cwnd == old.cwnd);
    } else {
        assert!(c.cwnd.is_finite());
        assert!(c.cwnd >= 2.);
        assert!(c.cwnd <= old.rwnd.max(2.));
    }
    assert!(eff(&c).is_finite() && eff(&c) <= c.rwnd);
}

//@ harness id=cubic.k.on_recovered kind=complete props=C15 tier=quick timeout=600 text="on_recovered(bytes, ssthresh_bytes): cwnd' finite, >= 2, <= max(rwnd, 2); ssthresh' not NaN, >= 0; mss/rwnd untouched"
#[kani::proof]
fn on_recovered_step() {
    let mut c = any_cubic(false);
    let old = c;
    let b: usize = kani::any();
    let s: usize = kani::any();
    c.on_recovered(b, s);
    assert!(c.cwnd.is_finite() && c.cwnd >= 2. && c.cwnd <= old.rwnd.max(2.));
    assert!(!c.ssthresh.is_nan() && c.ssthresh >= 0.);
    assert!(c.mss == old.mss && c.rwnd == old.rwnd);
}

//@ harness id=cubic.k.set_mss kind=complete props=C15 tier=thorough timeout=1500 text="set_mss(m): identity when m == mss (no reset); otherwise mss' == m, the window is rescaled, not reset: cwnd' == cwnd * (mss/m), stays finite and non-negative; peer window untouched"
#[kani::proof]
fn set_mss_step() {
    let mut c = any_cubic(false);
    kani::assume(c.w_max.is_finite() && c.w_max_last.is_finite() && c.w_max.abs() <= TWO40 && c.w_max_last.abs() <= TWO40);
    let old = c;
    let m: usize = kani::any();
    kani::assume(m >= 1 && m <= 65535);
    c.set_mss(m);
    assert!(c.mss == m && c.rwnd == old.rwnd);
    if m == old.mss {
        assert!(c.cwnd == old.cwnd && c.ssthresh == old.ssthresh && c.w_max == old.w_max && c.w_max_last == old.w_max_last);
    } else {
        assert!(c.cwnd.is_finite() && c.cwnd >= 0.);
        assert!(c.w_max.is_finite() && c.w_max_last.is_finite());
        assert!((c.cwnd == 0.) == (old.cwnd == 0.) || old.cwnd < 1e-300);
        // a smaller MSS means more segments in the same number of bytes, and vice versa
        if m < old.mss { assert!(c.cwnd >= old.cwnd); } else { assert!(c.cwnd <= old.cwnd); }
    }
}

//@ harness id=cubic.k.set_mss_same kind=complete props=C15 tier=quick timeout=300 text="set_mss(m) with m == mss changes nothing (the window is not reset by the per-ACK MSS refresh)"
#[kani::proof]
fn set_mss_same() {
    let mut c = any_cubic(true);
    let old = c;
    c.set_mss(old.mss);
    assert!(c.cwnd.to_bits() == old.cwnd.to_bits() && c.ssthresh.to_bits() == old.ssthresh.to_bits() && c.w_max.to_bits() == old.w_max.to_bits()
        && c.w_max_last.to_bits() == old.w_max_last.to_bits() && c.mss == old.mss && c.rwnd.to_bits() == old.rwnd.to_bits());
}

//@ harness id=cubic.k.set_mss_direction kind=complete props=C15,C05 tier=quick timeout=900 text="set_mss(m), m != mss: the window in segments moves in the right direction and is not clamped or reset: a smaller MSS never yields fewer segments, a larger MSS never more (cwnd in [2, 2^20], any peer window)"
#[kani::proof]
fn set_mss_direction() {
    let mut c = any_cubic(false);
    kani::assume(c.cwnd >= 2. && c.cwnd <= 1048576.);
    let old = c;
    let m: usize = kani::any();
    kani::assume(m >= 1 && m <= 65535 && m != old.mss);
    c.set_mss(m);
    if m < old.mss { assert!(c.cwnd >= old.cwnd); } else { assert!(c.cwnd <= old.cwnd); }
}

//@ harness id=cubic.k.enter_recovery_factor.int kind=bounded props=C15 tier=quick timeout=900 bound="cwnd an integer number of segments in [0, 65535]; every other field any f64" text="on_enter_recovery: cwnd' == cwnd * 0.7 bit for bit and ssthresh' == max(cwnd', 2), for every integral window up to 65535 segments, whatever w_max / w_max_last (fast convergence) are"
#[kani::proof]
#[kani::stub(calc_k, stub_calc_k)]
fn enter_recovery_factor_int() {
    let mut c = any_cubic(true);
    let n: u16 = kani::any();
    c.cwnd = n as f64;
    let old = c;
    c.on_enter_recovery(old.last_congestion_event);
    assert!(c.cwnd.to_bits() == (old.cwnd * 0.7).to_bits());
    assert!(c.ssthresh.to_bits() == c.cwnd.max(2.).to_bits());
}

//@ harness id=cubic.k.enter_recovery_factor kind=complete props=C15 tier=thorough timeout=2400 text="on_enter_recovery: the window becomes exactly 0.7 of the PREVIOUS window (cwnd' == cwnd * 0.7, bit for bit) and ssthresh' == max(cwnd', 2), whatever w_max / w_max_last (fast convergence) are"
#[kani::proof]
#[kani::stub(calc_k, stub_calc_k)]
fn enter_recovery_factor() {
    let mut c = any_cubic(false);
    let old = c;
    c.on_enter_recovery(old.last_congestion_event);
    assert!(c.cwnd.to_bits() == (old.cwnd * 0.7).to_bits());
    assert!(c.ssthresh.to_bits() == c.cwnd.max(2.).to_bits());
}

//@ harness id=cubic.k.rto_factor.int kind=bounded props=C15 tier=quick timeout=900 bound="cwnd an integer number of segments in [0, 65535]" text="on_retransmission_timeout: ssthresh' == max(cwnd * 0.7, 2) bit for bit, for every integral window up to 65535 segments"
#[kani::proof]
fn rto_factor_int() {
    let mut c = any_cubic(true);
    let n: u16 = kani::any();
    c.cwnd = n as f64;
    let old = c;
    c.on_retransmission_timeout(old.last_congestion_event);
    assert!(c.ssthresh.to_bits() == (old.cwnd * 0.7).max(2.).to_bits());
}

//@ harness id=cubic.k.rto_factor.attempt kind=attempt props=C15 tier=thorough timeout=1200 text="on_retransmission_timeout: ssthresh' == max(cwnd * 0.7, 2) bit for bit"
#[kani::proof]
fn rto_factor() {
    let mut c = any_cubic(false);
    let old = c;
    c.on_retransmission_timeout(old.last_congestion_event);
    assert!(c.ssthresh.to_bits() == (old.cwnd * 0.7).max(2.).to_bits());
}

//@ harness id=cubic.k.slow_start_increment.int.attempt kind=attempt props=C15,C05 tier=thorough timeout=1200 bound="cwnd an integer in [2, 65535] segments, len <= 65535 bytes" text="in slow start one ACK of len bytes grows the window by at most len/mss segments (the bytes it acknowledged) and never shrinks it, up to the peer-window clamp"
#[kani::proof]
#[kani::unwind(3)]
#[kani::stub(w_cubic, stub_w_cubic)]
#[kani::stub(w_est, stub_w_est)]
#[kani::stub(crate::rtte::RttEstimator::roundtrip_time, stub_rtt)]
fn slow_start_increment_int() {
    let mut c = any_cubic(true);
    let n: u16 = kani::any();
    kani::assume(n >= 2);
    c.cwnd = n as f64;
    kani::assume(c.cwnd < c.ssthresh && c.cwnd < c.rwnd);
    let old = c;
    let len: u16 = kani::any();
    kani::assume(len >= 1);
    c.on_ack(old.last_congestion_event, len as usize, &RttEstimator::default());
    let grown = old.cwnd + len as f64 / old.mss as f64;
    assert!(c.cwnd <= grown);
    assert!(c.cwnd >= old.cwnd);
    assert!(c.cwnd == grown.min(old.rwnd).max(2.));
}

//@ harness id=cubic.k.ssthresh_factor.attempt kind=attempt props=C15 tier=thorough timeout=900 text="after a timeout or entry into recovery ssthresh' == max(0.7 * cwnd, 2) exactly (equality of two floating-point products: at CBMC's limit)"
#[kani::proof]
#[kani::stub(calc_k, stub_calc_k)]
fn ssthresh_factor_attempt() {
    let mut c = any_cubic(false);
    kani::assume(c.w_max.is_finite() && c.w_max_last.is_finite());
    let old = c;
    if kani::any() {
        c.on_retransmission_timeout(any_instant());
    } else {
        c.on_enter_recovery(any_instant());
    }
    assert!(c.ssthresh == (old.cwnd * 0.7).max(2.));
}

//@ harness id=cubic.k.slow_start_increment.attempt kind=attempt props=C15,C05 tier=thorough timeout=900 text="in slow start one ACK of len bytes grows cwnd by at most len/mss segments (equality/inequality of floating-point sums and quotients: at CBMC's limit)"
#[kani::proof]
#[kani::unwind(3)]
#[kani::stub(w_cubic, stub_w_cubic)]
#[kani::stub(crate::rtte::RttEstimator::roundtrip_time, stub_rtt)]
fn slow_start_increment_attempt() {
    let mut c = any_cubic(false);
    kani::assume(c.cwnd >= 2. && c.cwnd < c.ssthresh && c.cwnd < c.rwnd);
    kani::assume(c.w_max.is_finite() && c.k.is_finite());
    let old = c;
    let len: usize = kani::any();
    kani::assume(len >= 1 && len <= (1 << 32));
    c.on_ack(any_instant(), len, &RttEstimator::default());
    assert!(c.cwnd <= old.cwnd + len as f64 / old.mss as f64);
    assert!(c.cwnd >= old.cwnd);
}

//@ harness id=cubic.k.vacuity kind=vacuity props=C15,C05 tier=quick timeout=300 text="controller states include slow start, congestion avoidance, a window above the peer window and a peer window below two segments"
#[kani::proof]
fn vacuity() {
    let c = any_cubic(false);
    kani::cover!(c.cwnd < c.ssthresh && c.cwnd < c.rwnd, "slow start");
    kani::cover!(c.cwnd >= c.ssthresh && c.cwnd < c.rwnd, "congestion avoidance");
    kani::cover!(c.cwnd > c.rwnd && c.rwnd > 2., "cwnd above the peer window");
    kani::cover!(c.rwnd < 2. && c.rwnd > 0., "peer window below two segments");
}
