//@ target src/utils.rs
//@ inject fn seq_nr_offset
//@ | #[cfg_attr(kani, kani::requires(wrap_tolerance < 32768))]
//@ | #[cfg_attr(kani, kani::ensures(|r: &isize| *r == crate::utils::verif_kani_seq_offset::spec_offset(new, old, wrap_tolerance)))]
//@ | #[cfg_attr(kani, kani::ensures(|r: &isize| (*r - (new as isize - old as isize)) % 65536 == 0 && -65536 < *r && *r < 65536))]
//@ end
// U-seq, Kani side: the same contract as contracts/seq.vrs in executable form, on the compiled function,
// for all 2^48 argument triples (loop-free => complete).
use super::*;

/// Oracle from the property statement: representative of (a - b) mod 2^16 in (-32768, 32768].
pub fn true_dist(a: u16, b: u16) -> isize {
    let d = (a as i32 - b as i32).rem_euclid(65536);
    if d > 32768 { (d - 65536) as isize } else { d as isize }
}

pub fn spec_offset(new: u16, old: u16, tol: u16) -> isize {
    let t = true_dist(new, old);
    if t.abs() <= tol as isize { t } else { new as isize - old as isize }
}

//@ harness id=seq.k.offset_contract kind=complete props=C09,C10 tier=quick timeout=300 pairs=seq.offset.range,seq.offset.congruent,seq.offset.exact,seq.offset.full,seq.seq_nr_offset.safety text="seq_nr_offset(new, old, tol) == spec_offset(new, old, tol) for every (new, old, tol<32768); congruent to new-old mod 2^16; no panic"
#[kani::proof_for_contract(seq_nr_offset)]
fn offset_contract() {
    let new: u16 = kani::any();
    let old: u16 = kani::any();
    let tol: u16 = kani::any();
    let _ = seq_nr_offset(new, old, tol);
}

//@ harness id=seq.k.offset_exact kind=complete props=C09 tier=quick timeout=300 pairs=seq.offset.exact text="|true_dist(new, old)| <= tol < 2^15  ==>  seq_nr_offset(new, old, tol) == true_dist(new, old)"
#[kani::proof]
fn offset_exact_inside_tolerance() {
    let new: u16 = kani::any();
    let old: u16 = kani::any();
    let tol: u16 = kani::any();
    kani::assume(tol < 32768);
    kani::assume(true_dist(new, old).abs() <= tol as isize);
    assert!(seq_nr_offset(new, old, tol) == true_dist(new, old));
}

//@ harness id=seq.k.vacuity kind=vacuity props=C09 tier=quick timeout=120 text="the assumptions of the offset harnesses admit wrap-straddling pairs at the tolerance boundary"
#[kani::proof]
fn vacuity() {
    let new: u16 = kani::any();
    let old: u16 = kani::any();
    let tol: u16 = kani::any();
    kani::assume(tol < 32768);
    kani::assume(true_dist(new, old).abs() <= tol as isize);
    kani::cover!(new < old && true_dist(new, old) > 0, "wrap-straddling pair, new ahead");
    kani::cover!(new > old && true_dist(new, old) < 0, "wrap-straddling pair, new behind");
    kani::cover!(true_dist(new, old).abs() == tol as isize && tol == 1024, "distance exactly at the tolerance");
}
