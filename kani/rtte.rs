//@ target src/rtte.rs
// U-rtte (C16, C06): RFC 6298 estimator, bit-precise on std::time::Duration. Loop-free; the domain restriction
// (samples and state components <= 2^20 s ~ 12 days; beyond that `Duration * 7` is std's overflow panic) is stated.
use super::*;

const MAX_SECS: u64 = 1 << 20;

fn any_dur(max_secs: u64) -> Duration {
    let s: u64 = kani::any();
    let n: u32 = kani::any();
    kani::assume(s <= max_secs && n < 1_000_000_000);
    Duration::new(s, n)
}

fn any_rto() -> Duration {
    let rto = any_dur(60);
    kani::assume(rto >= RTTE_MIN_RTO && rto <= RTTE_MAX_RTO);
    rto
}

/// Any estimator state satisfying the type invariant `200 ms <= rto <= 60 s`.
fn any_rtte() -> RttEstimator {
    let state = if kani::any() {
        RttState::Initial { rto: any_rto() }
    } else {
        RttState::Subsequent { rto: any_rto(), srtt: any_dur(MAX_SECS), rttvar: any_dur(MAX_SECS) }
    };
    RttEstimator { state, ..Default::default() }
}

//@ harness id=rtte.k.default kind=complete props=C16 tier=quick timeout=300 text="RttEstimator::default(): RTO == 300 ms, inside [200 ms, 60 s]"
#[kani::proof]
fn default_state() {
    let r = RttEstimator::default();
    assert!(r.retransmission_timeout() == Duration::from_millis(300));
    assert!(r.retransmission_timeout() >= RTTE_MIN_RTO && r.retransmission_timeout() <= RTTE_MAX_RTO);
    assert!(RTTE_MIN_RTO == Duration::from_millis(200) && RTTE_MAX_RTO == Duration::from_secs(60));
    assert!(CLOCK_GRANULARITY == Duration::from_millis(10) && K == 4);
}

//@ harness id=rtte.k.timeout_doubles kind=complete props=C16,C06 tier=quick timeout=600 text="on_rto_timeout from any valid state: RTO' == min(2*RTO, 60 s), stays in [200 ms, 60 s], SRTT/RTTVAR untouched"
#[kani::proof]
fn timeout_doubles() {
    let mut r = any_rtte();
    let before = r.retransmission_timeout();
    let srtt_before = r.roundtrip_time();
    let was_initial = matches!(r.state, RttState::Initial { .. });
    let var_before = match r.state { RttState::Subsequent { rttvar, .. } => Some(rttvar), _ => None };
    r.on_rto_timeout();
    let after = r.retransmission_timeout();
    assert!(after >= RTTE_MIN_RTO && after <= RTTE_MAX_RTO);
    assert!(after == (before * 2).min(RTTE_MAX_RTO));
    assert!(after >= before);
    assert!(matches!(r.state, RttState::Initial { .. }) == was_initial);
    if !was_initial { assert!(r.roundtrip_time() == srtt_before); }
    match r.state { RttState::Subsequent { rttvar, .. } => assert!(Some(rttvar) == var_before), _ => {} }
}

//@ harness id=rtte.k.sample kind=complete props=C16 tier=quick timeout=1200 text="sample(s) from any valid state, s <= 2^20 s: RTO' in [200 ms, 60 s]; RTO' == clamp(SRTT' + max(4*RTTVAR', 10 ms)) whatever RTO was before (so a backed-off RTO returns to the sample-derived value); first sample: SRTT' == s, RTTVAR' == s/2; later: min(SRTT, s) <= SRTT' <= max(SRTT, s); no panic"
#[kani::proof]
fn sample_step() {
    let mut r = any_rtte();
    let s = any_dur(MAX_SECS);
    let old_srtt = r.roundtrip_time();
    let was_initial = matches!(r.state, RttState::Initial { .. });
    r.sample(s);
    let rto = r.retransmission_timeout();
    assert!(rto >= RTTE_MIN_RTO && rto <= RTTE_MAX_RTO);
    match r.state {
        RttState::Initial { .. } => assert!(false),
        RttState::Subsequent { rto: rto2, srtt, rttvar } => {
            assert!(rto2 == rto && srtt == r.roundtrip_time());
            let want = (srtt + (rttvar * 4).max(Duration::from_millis(10))).max(Duration::from_millis(200)).min(Duration::from_secs(60));
            assert!(rto == want);
            if was_initial {
                assert!(srtt == s && rttvar == s / 2);
            } else {
                assert!(srtt >= old_srtt.min(s) && srtt <= old_srtt.max(s));
            }
        }
    }
}

//@ harness id=rtte.k.helpers kind=complete props=C16 tier=quick timeout=600 text="clamp(d) == max(200 ms, min(d, 60 s)); duration_abs_diff(a,b) == |a-b| without panic"
#[kani::proof]
fn helpers() {
    let a = any_dur(MAX_SECS);
    let b = any_dur(MAX_SECS);
    let c = clamp(a);
    assert!(c >= RTTE_MIN_RTO && c <= RTTE_MAX_RTO);
    assert!(c == a.max(RTTE_MIN_RTO).min(RTTE_MAX_RTO));
    let d = duration_abs_diff(a, b);
    assert!(d == if a >= b { a - b } else { b - a });
}

//@ harness id=rtte.k.vacuity kind=vacuity props=C16,C06 tier=quick timeout=300 text="valid estimator states include the RTO cap, the floor and large SRTT"
#[kani::proof]
fn vacuity() {
    let r = any_rtte();
    kani::cover!(r.retransmission_timeout() == RTTE_MAX_RTO, "RTO at the cap");
    kani::cover!(r.retransmission_timeout() == RTTE_MIN_RTO, "RTO at the floor");
    kani::cover!(matches!(r.state, RttState::Subsequent { srtt, .. } if srtt > Duration::from_secs(3600)), "huge SRTT");
}
