//@ target src/stream_dispatch.rs
//@ needs txseg.rs
// Dispatcher methods that only touch a few fields of `VirtualSocket`, run by Kani on a PARTIALLY INITIALISED object: the
// struct cannot be built (it owns a tokio Sleep, an Arc<UtpSocket>, channels...), so a MaybeUninit<VirtualSocket<..>> is
// allocated and exactly the fields the method reads/writes are written through raw pointers (S4, harness-only unsafe;
// stated assumption: the method under test touches no other field - if it did, CBMC would read unconstrained memory and
// the harness would fail or be flagged, it cannot silently pass on garbage because every asserted value is derived from
// initialised fields only). This gives the real iterator-based code (which Verus cannot read) to the bit-precise back end.
use super::*;
use crate::stream_tx_segments::verif_kani_txseg::{any_instant, any_segments};
use std::mem::MaybeUninit;
use std::ptr::addr_of_mut;

type VS = VirtualSocket<librqbit_dualstack_sockets::UdpSocket, crate::traits::DefaultUtpEnvironment>;

fn check_unsent_data_exists<const N: usize>() {
    let segs = any_segments::<N>();
    // oracle, from the statement (C17: the FIN is sent only after ALL accepted data has been transmitted, and only a
    // never-acknowledged probe may be split - so an outstanding probe is not "transmitted for good" either)
    let mut pending = false;
    let mut i = 0;
    while i < N {
        let (delivered, never_sent, probe) = crate::stream_tx_segments::verif_kani_txseg::seg_flags(&segs, i);
        if !delivered && (never_sent || probe) { pending = true; }
        i += 1;
    }
    let unseg: usize = kani::any();
    let mut slot: Box<MaybeUninit<VS>> = Box::new(MaybeUninit::uninit());
    let p: *mut VS = slot.as_mut_ptr();
    let r = unsafe {
        addr_of_mut!((*p).user_tx_segments).write(segs);
        addr_of_mut!((*p).this_poll.unsegmented_data).write(unseg);
        (&mut *p).unsent_data_exists()
    };
    assert!(r == (unseg > 0 || pending));
    std::mem::forget(slot);
}

//@ harness id=fin_gate.k.unsent_data_exists.n0 kind=bounded props=C17 tier=quick timeout=600 bound="N_SEG==0" text="unsent_data_exists() (the gate in front of assigning the FIN its sequence number) is true exactly when bytes are still unsegmented, or an undelivered segment was never sent, or an undelivered MTU probe is outstanding (it may still be popped and re-cut into more segments, F8)"
#[kani::proof]
#[kani::unwind(4)]
fn unsent_data_exists_n0() { check_unsent_data_exists::<0>(); }

//@ harness id=fin_gate.k.unsent_data_exists.n1 kind=bounded props=C17 tier=quick timeout=600 bound="N_SEG==1" text="same as fin_gate.k.unsent_data_exists.n0 with one queued segment"
#[kani::proof]
#[kani::unwind(5)]
fn unsent_data_exists_n1() { check_unsent_data_exists::<1>(); }

//@ harness id=fin_gate.k.unsent_data_exists.n2 kind=bounded props=C17 tier=quick timeout=900 bound="N_SEG==2" text="same as fin_gate.k.unsent_data_exists.n0 with two queued segments"
#[kani::proof]
#[kani::unwind(6)]
fn unsent_data_exists_n2() { check_unsent_data_exists::<2>(); }

fn any_t<const N: u8>() -> Timer<N> {
    if kani::any() { Timer::Idle } else { Timer::Armed { expires_at: any_instant() } }
}

//@ harness id=timer.k.next_timer_to_poll kind=complete props=C07,C08 tier=quick timeout=600 text="next_timer_to_poll() (real iterator code, partially initialised VirtualSocket): unless the transport is pending, the dispatcher asks to be woken at the EARLIEST armed timer - in particular no later than an armed delayed-ACK deadline; None iff nothing is armed; only the one-shot recovery-pipe timer is disarmed by the call; with the transport pending only the inactivity timer counts and nothing is disarmed"
#[kani::proof]
#[kani::unwind(8)]
fn next_timer_to_poll_earliest() {
    let (ack, rtx, ina, pipe, syn) = (any_t::<TIMER_ACK_DELAY>(), any_t::<TIMER_RETRANSMIT>(), any_t::<TIMER_INACTIVITY>(), any_t::<TIMER_RECOVERY_PIPE>(), any_t::<TIMER_SYN_ACK_RESEND>());
    let pending: bool = kani::any();
    let mut slot: Box<MaybeUninit<VS>> = Box::new(MaybeUninit::uninit());
    let p: *mut VS = slot.as_mut_ptr();
    let (r, ack2, rtx2, ina2, pipe2, syn2) = unsafe {
        addr_of_mut!((*p).timers.ack_delay_timer).write(ack);
        addr_of_mut!((*p).timers.retransmit).write(rtx);
        addr_of_mut!((*p).timers.remote_inactivity_timer).write(ina);
        addr_of_mut!((*p).timers.recovery_pipe_expiry).write(pipe);
        addr_of_mut!((*p).timers.syn_ack_resend).write(syn);
        addr_of_mut!((*p).this_poll.transport_pending).write(pending);
        let r = (&mut *p).next_timer_to_poll();
        (r, (*p).timers.ack_delay_timer, (*p).timers.retransmit, (*p).timers.remote_inactivity_timer, (*p).timers.recovery_pipe_expiry, (*p).timers.syn_ack_resend)
    };
    assert!(ack2 == ack && rtx2 == rtx && ina2 == ina && syn2 == syn);
    if pending {
        assert!(r == ina.poll_at() && pipe2 == pipe);
    } else {
        assert!(pipe2 == Timer::Idle);
        let all = [ack.poll_at(), rtx.poll_at(), ina.poll_at(), pipe.poll_at(), syn.poll_at()];
        let mut any_armed = false;
        let mut i = 0;
        while i < 5 {
            if let Some(t) = all[i] { any_armed = true; assert!(r.is_some() && r.unwrap() <= t); }
            i += 1;
        }
        assert!(r.is_some() == any_armed);
        if let Some(rv) = r {
            let mut hit = false; let mut i = 0;
            while i < 5 { if all[i] == Some(rv) { hit = true; } i += 1; }
            assert!(hit);
        }
    }
    std::mem::forget(slot);
}

fn any_vstate() -> VirtualSocketState {
    match kani::any::<u8>() % 7 {
        0 => VirtualSocketState::SynReceived,
        1 => VirtualSocketState::SynAckSent { count: kani::any() },
        2 => VirtualSocketState::Established,
        3 => VirtualSocketState::FinWait1 { our_fin: SeqNr(kani::any()) },
        4 => VirtualSocketState::FinWait2,
        5 => VirtualSocketState::LastAck { our_fin: SeqNr(kani::any()), remote_fin: SeqNr(kani::any()) },
        _ => VirtualSocketState::Closed,
    }
}

//@ harness id=fin_gate.k.fin_takes_next_unused_seq_nr kind=complete props=C17 tier=quick timeout=600 text="VirtualSocket::transition_to_fin_wait_1 (real code incl. the log_if_changed! wrapper; partially initialised object: only state and seq_nr are alive): from SynReceived/SynAckSent/Established the FIN is assigned exactly the next unused sequence number seq_nr (the number following the last data segment ever numbered, not something derived from the rewindable last_sent_seq_nr) and seq_nr advances by one; in every other state nothing changes"
#[kani::proof]
fn fin_takes_next_unused_seq_nr() {
    let st = any_vstate();
    let seq: u16 = kani::any();
    let mut slot: Box<MaybeUninit<VS>> = Box::new(MaybeUninit::uninit());
    let p: *mut VS = slot.as_mut_ptr();
    let (st2, seq2) = unsafe {
        addr_of_mut!((*p).state).write(st);
        addr_of_mut!((*p).seq_nr).write(SeqNr(seq));
        (&mut *p).transition_to_fin_wait_1();
        ((*p).state, (*p).seq_nr)
    };
    if matches!(st, VirtualSocketState::Established | VirtualSocketState::SynReceived | VirtualSocketState::SynAckSent { .. }) {
        assert!(st2 == VirtualSocketState::FinWait1 { our_fin: SeqNr(seq) });
        assert!(seq2 == SeqNr(seq.wrapping_add(1)));
    } else {
        assert!(st2 == st && seq2 == SeqNr(seq));
    }
    std::mem::forget(slot);
}
