//@ target src/stream_dispatch.rs
//@ needs txseg.rs
// Dispatcher methods that only touch a few fields of `VirtualSocket`, run by Kani on a PARTIALLY INITIALISED object: the
// struct cannot be built (it owns a tokio Sleep, an Arc<UtpSocket>, channels...), so a MaybeUninit<VirtualSocket<..>> is
// allocated and exactly the fields the method reads/writes are written through raw pointers (S4, harness-only unsafe;
// stated assumption: the method under test touches no other field - if it did, CBMC would read unconstrained memory and
// the harness would fail or be flagged, it cannot silently pass on garbage because every asserted value is derived from
// initialised fields only). This gives the real iterator-based code (which Verus cannot read) to the bit-precise back end.
use super::*;
use crate::stream_tx_segments::verif_kani_txseg::any_segments;
use std::mem::MaybeUninit;
use std::ptr::addr_of_mut;

type VS = VirtualSocket<librqbit_dualstack_sockets::UdpSocket, crate::traits::DefaultUtpEnvironment>;

fn check_unsent_data_exists<const N: usize>() {
    let segs = any_segments::<N>();
    // oracle, from the statement (C17: the FIN is sent only after ALL accepted data has been transmitted, and only a
    // never-acknowledged probe may be split - so an outstanding probe is not "transmitted for good" either)
    let mut pending = false;
    let mut i = 0;
    while i < N {
        let (delivered, never_sent, probe) = crate::stream_tx_segments::verif_kani_txseg::seg_flags(&segs, i);
        if !delivered && (never_sent || probe) { pending = true; }
        i += 1;
    }
    let unseg: usize = kani::any();
    let mut slot: Box<MaybeUninit<VS>> = Box::new(MaybeUninit::uninit());
    let p: *mut VS = slot.as_mut_ptr();
    let r = unsafe {
        addr_of_mut!((*p).user_tx_segments).write(segs);
        addr_of_mut!((*p).this_poll.unsegmented_data).write(unseg);
        (&mut *p).unsent_data_exists()
    };
    assert!(r == (unseg > 0 || pending));
    std::mem::forget(slot);
}

//@ harness id=fin_gate.k.unsent_data_exists.n0 kind=bounded props=C17 tier=quick timeout=600 bound="N_SEG==0" text="unsent_data_exists() (the gate in front of assigning the FIN its sequence number) is true exactly when bytes are still unsegmented, or an undelivered segment was never sent, or an undelivered MTU probe is outstanding (it may still be popped and re-cut into more segments, F8)"
#[kani::proof]
#[kani::unwind(4)]
fn unsent_data_exists_n0() { check_unsent_data_exists::<0>(); }

//@ harness id=fin_gate.k.unsent_data_exists.n1 kind=bounded props=C17 tier=quick timeout=600 bound="N_SEG==1" text="same as fin_gate.k.unsent_data_exists.n0 with one queued segment"
#[kani::proof]
#[kani::unwind(5)]
fn unsent_data_exists_n1() { check_unsent_data_exists::<1>(); }

//@ harness id=fin_gate.k.unsent_data_exists.n2 kind=bounded props=C17 tier=quick timeout=900 bound="N_SEG==2" text="same as fin_gate.k.unsent_data_exists.n0 with two queued segments"
#[kani::proof]
#[kani::unwind(6)]
fn unsent_data_exists_n2() { check_unsent_data_exists::<2>(); }
