//@ target src/mtu.rs
// U-mtu, Kani side (C14): every method of SegmentSizes on the compiled code, loop-free over full-width inputs.
use super::*;

fn overhead(is_ipv4: bool) -> u32 { (if is_ipv4 { 20 } else { 40 }) + 8 + 20 }
fn min_path_mtu(is_ipv4: bool) -> u32 { if is_ipv4 { 576 } else { 1280 } }

fn wf(s: &SegmentSizes) -> bool { 1 <= s.min_ss && s.min_ss <= s.max_ss && s.max_ss <= 65534 }

fn any_sizes() -> SegmentSizes {
    let s = SegmentSizes { min_ss: kani::any(), max_ss: kani::any(), cooldown_remaining_packets: kani::any(), cooldown_max_packets: kani::any() };
    kani::assume(wf(&s));
    s
}

fn spec_probe(min_ss: u32, max_ss: u32) -> u32 { core::cmp::min(min_ss + (max_ss - min_ss) / 2 + 1, max_ss) }

//@ harness id=mtu.k.new kind=complete props=C14 tier=quick timeout=300 text="SegmentSizes::new for EVERY (is_ipv4, link_mtu, cooldown): no panic; 1 <= min_ss <= max_ss <= 65534; max_ss + IP + UDP + uTP headers == max(link_mtu, headers + 1) (a too-small MTU is clamped up to one payload byte); min_ss is the protocol-minimum MTU (576 / 1280) minus headers, or max_ss if the link is smaller"
#[kani::proof]
fn new_any_config() {
    let is_ipv4: bool = kani::any();
    let link_mtu: u16 = kani::any();
    let cooldown: u16 = kani::any();
    let s = SegmentSizes::new(SegmentSizesConfig { is_ipv4, link_mtu, probe_expiry_cooldown_packets: cooldown });
    assert!(wf(&s));
    let oh = overhead(is_ipv4);
    assert!(s.max_ss as u32 + oh == core::cmp::max(link_mtu as u32, oh + 1));
    let want_min = if (s.max_ss as u32 + oh) < min_path_mtu(is_ipv4) { s.max_ss as u32 } else { min_path_mtu(is_ipv4) - oh };
    assert!(s.min_ss as u32 == want_min);
    assert!(s.cooldown_remaining_packets == 1 && s.cooldown_max_packets == cooldown);
    assert!(s.mss() == s.min_ss && s.max_ss() == s.max_ss);
}

//@ harness id=mtu.k.delivered kind=complete props=C14 tier=quick timeout=300 pairs=mtu.delivered.wf,mtu.delivered.never_raises_ceiling,mtu.delivered.min,mtu.delivered.monotone,mtu.delivered.max,mtu.delivered.frame,mtu.on_payload_delivered.safety text="on_payload_delivered(p) for ANY p (usize) from any wf state: wf kept; the ceiling max_ss is never raised (whatever payload size the peer uses); min_ss' == max(min_ss, min(p, max_ss)); no panic"
#[kani::proof]
fn delivered_any_size() {
    let mut s = any_sizes();
    let old = s;
    let p: usize = kani::any();
    s.on_payload_delivered(p);
    assert!(wf(&s));
    assert!(s.max_ss <= old.max_ss);
    assert!(s.max_ss == old.max_ss);
    let capped = core::cmp::min(p, old.max_ss as usize) as u16;
    assert!(s.min_ss == core::cmp::max(old.min_ss, capped));
    assert!(s.min_ss >= old.min_ss);
    assert!(s.cooldown_remaining_packets == old.cooldown_remaining_packets && s.cooldown_max_packets == old.cooldown_max_packets);
}

//@ harness id=mtu.k.probe_failed kind=complete props=C14 tier=quick timeout=300 pairs=mtu.failed.wf,mtu.failed.min_unchanged,mtu.failed.max,mtu.failed.never_raises,mtu.failed.frame,mtu.on_probe_failed.safety text="on_probe_failed(size), size <= 65535, from any wf state: wf kept; only the ceiling moves: max_ss' == max(min_ss, min(max_ss, size-1)); never raised; min_ss untouched"
#[kani::proof]
fn probe_failed_any_size() {
    let mut s = any_sizes();
    let old = s;
    let size: usize = kani::any();
    kani::assume(size <= 65535);
    s.on_probe_failed(size);
    assert!(wf(&s));
    assert!(s.min_ss == old.min_ss);
    assert!(s.max_ss <= old.max_ss);
    let cap = if size >= 1 { size - 1 } else { 0 } as u32;
    assert!(s.max_ss as u32 == core::cmp::max(old.min_ss as u32, core::cmp::min(old.max_ss as u32, cap)));
}

//@ harness id=mtu.k.next_size kind=complete props=C14 tier=quick timeout=300 pairs=mtu.next_size.wf,mtu.next_size.value,mtu.next_size.bounds,mtu.next_size.cooldown,mtu.next_probe.value,mtu.next_probe.range,mtu.next_probe.strict,mtu.is_probing,mtu.next_segment_size.safety,mtu.next_probe.safety,mtu.is_probing.safety,mtu.disarm text="next_segment_size / next_probe / is_probing / disarm_cooldown from any wf state: sizes handed out are min_ss (ordinary) or the midpoint probe min_ss + (max_ss-min_ss)/2 + 1 capped at max_ss, always within [min_ss, max_ss]; a probe is strictly larger than min_ss iff min_ss < max_ss; cooldown counter arithmetic; no overflow"
#[kani::proof]
fn next_size_any_state() {
    let mut s = any_sizes();
    let old = s;
    assert!(s.next_probe() as u32 == spec_probe(old.min_ss as u32, old.max_ss as u32));
    assert!(s.is_probing() == (old.min_ss < old.max_ss));
    let r = s.next_segment_size();
    assert!(wf(&s) && s.min_ss == old.min_ss && s.max_ss == old.max_ss);
    assert!(old.min_ss <= r && r <= old.max_ss);
    if old.cooldown_remaining_packets == 0 {
        assert!(r as u32 == spec_probe(old.min_ss as u32, old.max_ss as u32));
        assert!((r > old.min_ss) == (old.min_ss < old.max_ss));
        assert!(s.cooldown_remaining_packets == old.cooldown_max_packets);
    } else {
        assert!(r == old.min_ss);
        assert!(s.cooldown_remaining_packets == old.cooldown_remaining_packets - 1);
    }
    assert!(s.cooldown_max_packets == old.cooldown_max_packets);
    let mut d = old;
    d.disarm_cooldown();
    assert!(d.cooldown_remaining_packets == 0 && d.min_ss == old.min_ss && d.max_ss == old.max_ss && d.cooldown_max_packets == old.cooldown_max_packets);
}

//@ harness id=mtu.k.vacuity kind=vacuity props=C14 tier=quick timeout=300 text="wf states include converged (min == max), wide-open and extreme (max_ss == 65534) ones"
#[kani::proof]
fn vacuity() {
    let s = any_sizes();
    kani::cover!(s.min_ss == s.max_ss, "converged");
    kani::cover!(s.min_ss == 1 && s.max_ss == 65534, "widest interval");
    kani::cover!(s.cooldown_remaining_packets == 0 && s.min_ss < s.max_ss, "probe due");
}
