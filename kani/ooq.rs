//@ target src/stream_rx.rs
// U-rxq, Kani side (C04, C01, C10): the reassembly queue `OutOfOrderQueue`. Inductive steps from a directly
// constructed symbolic well-formed state of EXACT capacity CAP (instantiated per CAP), payloads of 0..2 bytes with
// symbolic contents. Slot i of the queue holds the packet with sequence number last_consumed + 1 + i.
use super::*;
use crate::raw::{Type, UtpHeader};
use crate::seq_nr::SeqNr;

#[derive(Clone, Copy, PartialEq)]
pub struct Slot { pub kind: u8, pub len: usize, pub b0: u8, pub b1: u8 }   // kind: 0 empty, 1 payload, 2 eof

pub fn slot_of(m: &OoqMessage) -> Slot {
    match m {
        OoqMessage::Eof => Slot { kind: 2, len: 0, b0: 0, b1: 0 },
        OoqMessage::Payload(p) if p.is_empty() => Slot { kind: 0, len: 0, b0: 0, b1: 0 },
        OoqMessage::Payload(p) => Slot { kind: 1, len: p.len(), b0: p[0], b1: if p.len() > 1 { p[1] } else { 0 } },
    }
}

fn any_slot() -> OoqMessage {
    match kani::any::<u8>() % 4 {
        0 => OoqMessage::Payload(Vec::new()),
        1 => OoqMessage::Payload(vec![kani::any::<u8>()]),
        2 => OoqMessage::Payload(vec![kani::any::<u8>(), kani::any::<u8>()]),
        _ => OoqMessage::Eof,
    }
}

/// Representation invariant, executable form.
pub fn wf(q: &OutOfOrderQueue) -> bool {
    if q.data.len() != q.capacity { return false; }
    let mut n = 0;
    let mut b = 0;
    let mut i = 0;
    while i < q.data.len() {
        let occupied = !ooq_slot_is_default(&q.data[i]);
        if occupied { n += 1; b += q.data[i].len_bytes(); }
        if i < q.filled_front && !occupied { return false; }     // [0, filled_front) is contiguous data
        if i == q.filled_front && occupied { return false; }      // filled_front is the first hole
        i += 1;
    }
    n == q.len && b == q.len_bytes && q.filled_front <= q.len
}

pub fn any_ooq<const CAP: usize>() -> OutOfOrderQueue {
    let mut data = VecDeque::with_capacity(CAP + 1);
    let mut i = 0;
    while i < CAP { data.push_back(any_slot()); i += 1; }
    let q = OutOfOrderQueue { data, filled_front: kani::any(), len: kani::any(), len_bytes: kani::any(), capacity: CAP };
    kani::assume(q.filled_front <= CAP && q.len <= CAP && q.len_bytes <= 2 * CAP);
    kani::assume(wf(&q));
    q
}

fn any_msg() -> (UtpMessage, Slot) {
    let htype = match kani::any::<u8>() % 5 { 0 => Type::ST_DATA, 1 => Type::ST_FIN, 2 => Type::ST_STATE, 3 => Type::ST_RESET, _ => Type::ST_SYN };
    let (data, s) = match kani::any::<u8>() % 3 {
        0 => (Vec::new(), Slot { kind: 1, len: 0, b0: 0, b1: 0 }),
        1 => { let a: u8 = kani::any(); (vec![a], Slot { kind: 1, len: 1, b0: a, b1: 0 }) }
        _ => { let a: u8 = kani::any(); let b: u8 = kani::any(); (vec![a, b], Slot { kind: 1, len: 2, b0: a, b1: b }) }
    };
    (UtpMessage { header: UtpHeader { htype, seq_nr: SeqNr(kani::any()), ..Default::default() }, data }, s)
}

fn check_add_remove<const CAP: usize>() {
    let mut q = any_ooq::<CAP>();
    let (ff0, len0, bytes0) = (q.filled_front, q.len, q.len_bytes);
    let mut before = [Slot { kind: 0, len: 0, b0: 0, b1: 0 }; CAP];
    let mut i = 0;
    while i < CAP { before[i] = slot_of(&q.data[i]); i += 1; }
    let (msg, mslot) = any_msg();
    let htype = msg.header.htype;
    let off: usize = kani::any();
    kani::assume(off <= usize::MAX - CAP);     // the dispatcher passes a non-negative isize
    let r = q.add_remove(msg, off);
    assert!(wf(&q));                            // no panic + invariant, for any offset / type / payload
    let unchanged = |q: &OutOfOrderQueue| {
        let mut ok = q.filled_front == ff0 && q.len == len0 && q.len_bytes == bytes0;
        let mut i = 0;
        while i < CAP { ok = ok && slot_of(&q.data[i]) == before[i]; i += 1; }
        ok
    };
    let full = len0 == CAP;
    let beyond = off + ff0 >= CAP;
    match r {
        Ok(AssemblerAddRemoveResult::Unavailable(_)) => { assert!(full || beyond); assert!(unchanged(&q)); }
        Ok(AssemblerAddRemoveResult::AlreadyPresent) => {
            // data once stored (and possibly acknowledged) is never overwritten
            assert!(!full && !beyond && before[off + ff0].kind != 0);
            assert!(unchanged(&q));
        }
        Ok(AssemblerAddRemoveResult::Consumed { sequence_numbers, bytes }) => {
            assert!(!full && !beyond && before[off + ff0].kind == 0);
            let at = off + ff0;
            let stored = if htype == Type::ST_FIN { Slot { kind: 2, len: 0, b0: 0, b1: 0 } } else { mslot };
            assert!(htype == Type::ST_FIN || (htype == Type::ST_DATA && mslot.len > 0));
            // exactly that slot was filled with exactly that message, every other slot untouched
            let mut i = 0;
            while i < CAP { assert!(slot_of(&q.data[i]) == if i == at { stored } else { before[i] }); i += 1; }
            assert!(q.len == len0 + 1 && q.len_bytes == bytes0 + stored.len);
            // the newly contiguous run is what gets released to the reader, in order, exactly once
            assert!(q.filled_front == ff0 + sequence_numbers);
            assert!((sequence_numbers > 0) == (off == 0));
            let mut run = 0; let mut rb = 0; let mut i = ff0;
            while i < CAP && slot_of(&q.data[i]).kind != 0 { run += 1; rb += slot_of(&q.data[i]).len; i += 1; }
            assert!(sequence_numbers == run && bytes == rb);
        }
        Err(Error::ZeroPayloadStData) => { assert!(!full && !beyond && htype == Type::ST_DATA && mslot.len == 0); assert!(unchanged(&q)); }
        Err(Error::BugInvalidMessageExpectedStDataOrFin) => { assert!(!full && !beyond && htype != Type::ST_DATA && htype != Type::ST_FIN); assert!(unchanged(&q)); }
        Err(_) => assert!(false),               // BugAssemblerMissingSlot is unreachable
    }
}

fn check_send_front<const CAP: usize>() {
    let mut q = any_ooq::<CAP>();
    let (ff0, len0, bytes0) = (q.filled_front, q.len, q.len_bytes);
    let mut before = [Slot { kind: 0, len: 0, b0: 0, b1: 0 }; CAP];
    let mut i = 0;
    while i < CAP { before[i] = slot_of(&q.data[i]); i += 1; }
    let window: usize = kani::any();
    let accept: bool = kani::any();
    let mut handed: Option<Slot> = None;
    let r = q.send_front_if_fits(window, |m| { handed = Some(slot_of(&m)); if accept { Ok(()) } else { Err(m) } });
    assert!(wf(&q));
    match r {
        Some(n) => {
            // released: only the in-order front slot, only if it fits, exactly that message
            assert!(ff0 > 0 && before[0].len <= window && accept);
            assert!(handed == Some(before[0]) && n == before[0].len);
            assert!(q.filled_front == ff0 - 1 && q.len == len0 - 1 && q.len_bytes == bytes0 - n);
            let mut i = 0;
            while i + 1 < CAP { assert!(slot_of(&q.data[i]) == before[i + 1]); i += 1; }
            assert!(slot_of(&q.data[CAP - 1]).kind == 0);
        }
        None => {
            // refused (nothing in order, does not fit, or the reader is gone): nothing is lost or reordered
            assert!(ff0 == 0 || before[0].len > window || !accept);
            assert!(q.filled_front == ff0 && q.len == len0 && q.len_bytes == bytes0);
            let mut i = 0;
            while i < CAP { assert!(slot_of(&q.data[i]) == before[i]); i += 1; }
            if ff0 == 0 || before[0].len > window { assert!(handed.is_none()); }
        }
    }
}

fn check_accessors<const CAP: usize>() {
    let q = any_ooq::<CAP>();
    let mut fb = 0; let mut i = 0;
    while i < q.filled_front { fb += q.data[i].len_bytes(); i += 1; }
    assert!(q.filled_front_bytes() == fb);
    assert!(q.stored_bytes() == q.len_bytes);
    assert!(q.is_full() == (q.len == CAP));
    assert!(q.is_empty() == (q.len == q.filled_front));
    // buffering bound: never more than CAP packets are held
    assert!(q.len <= CAP);
}

fn check_selective_ack<const CAP: usize>() {
    // CAP <= 9, so every held slot beyond the first hole maps to a bit of the FIRST mask byte
    let q = any_ooq::<CAP>();
    let ff = q.filled_front;
    let s = q.selective_ack();
    // oracle from the statement: bit k <=> the packet at slot ff+1+k (sequence number ack_nr + 2 + k) is held
    let mut mask: u8 = 0;
    let mut i = ff + 1;
    while i < CAP { if slot_of(&q.data[i]).kind != 0 { mask |= 1 << (i - ff - 1); } i += 1; }
    assert!(s.is_some() == (mask != 0));     // None iff nothing is held beyond the first hole
    if let Some(s) = s {
        assert!(s.len() == 64);
        let raw = s.as_bytes();
        assert!(raw.len() == 8);
        assert!(raw[0] == mask);             // exactly the held packets, no other bit
        assert!(raw[1] == 0 && raw[2] == 0 && raw[3] == 0 && raw[4] == 0 && raw[5] == 0 && raw[6] == 0 && raw[7] == 0);
    }
}

//@ harness id=ooq.k.add_remove.c1 kind=bounded props=C04,C01,C10 tier=quick timeout=900 bound="OOQ_CAP==1; payload<=2B" text="add_remove(msg, off) from any wf reassembly queue, ANY offset/type/payload: no panic, wf kept; Unavailable iff full or beyond the window (state unchanged); AlreadyPresent iff the slot is occupied (state unchanged: stored data is never overwritten); otherwise exactly slot filled_front+off receives exactly that message, all other slots untouched, and exactly the newly contiguous run is released (count and bytes), >0 iff off==0; ZeroPayloadStData/BugInvalidMessage only for those inputs, state unchanged"
#[kani::proof]
#[kani::unwind(5)]
fn add_remove_c1() { check_add_remove::<1>(); }

//@ harness id=ooq.k.add_remove.c2 kind=bounded props=C04,C01,C10 tier=quick timeout=900 bound="OOQ_CAP==2; payload<=2B" text="same as ooq.k.add_remove.c1 at capacity 2"
#[kani::proof]
#[kani::unwind(5)]
fn add_remove_c2() { check_add_remove::<2>(); }

//@ harness id=ooq.k.add_remove.c3 kind=bounded props=C04,C01,C10 tier=quick timeout=1800 bound="OOQ_CAP==3; payload<=2B" text="same as ooq.k.add_remove.c1 at capacity 3"
#[kani::proof]
#[kani::unwind(6)]
fn add_remove_c3() { check_add_remove::<3>(); }

//@ harness id=ooq.k.add_remove.c4 kind=bounded props=C04,C01,C10 tier=thorough timeout=3000 bound="OOQ_CAP==4; payload<=2B" text="same as ooq.k.add_remove.c1 at capacity 4"
#[kani::proof]
#[kani::unwind(7)]
fn add_remove_c4() { check_add_remove::<4>(); }

//@ harness id=ooq.k.send_front.c1 kind=bounded props=C04,C01 tier=quick timeout=900 bound="OOQ_CAP==1; payload<=2B" text="send_front_if_fits(window, sink): releases only the in-order front slot, only if it fits the window and the sink takes it, hands over exactly that message, shifts the rest by one; on refusal nothing is lost, duplicated or reordered"
#[kani::proof]
#[kani::unwind(5)]
fn send_front_c1() { check_send_front::<1>(); }

//@ harness id=ooq.k.send_front.c2 kind=bounded props=C04,C01 tier=quick timeout=900 bound="OOQ_CAP==2; payload<=2B" text="same as ooq.k.send_front.c1 at capacity 2"
#[kani::proof]
#[kani::unwind(5)]
fn send_front_c2() { check_send_front::<2>(); }

//@ harness id=ooq.k.send_front.c3 kind=bounded props=C04,C01 tier=quick timeout=900 bound="OOQ_CAP==3; payload<=2B" text="same as ooq.k.send_front.c1 at capacity 3"
#[kani::proof]
#[kani::unwind(6)]
fn send_front_c3() { check_send_front::<3>(); }

//@ harness id=ooq.k.accessors.c3 kind=bounded props=C04,C10 tier=quick timeout=900 bound="OOQ_CAP==3; payload<=2B" text="filled_front_bytes == bytes of the in-order prefix; stored_bytes == all held bytes; is_full/is_empty; never more than capacity packets held"
#[kani::proof]
#[kani::unwind(6)]
fn accessors_c3() { check_accessors::<3>(); }

//@ harness id=ooq.k.selective_ack.c2 kind=bounded props=C04 tier=quick timeout=900 bound="OOQ_CAP==2; payload<=2B" text="same as ooq.k.selective_ack.c3 at capacity 2"
#[kani::proof]
#[kani::unwind(12)]
fn selective_ack_c2() { check_selective_ack::<2>(); }

//@ harness id=ooq.k.selective_ack.c3.shifted kind=bounded props=C04 tier=quick timeout=1200 bound="OOQ_CAP==3 with exactly one consumed-but-unflushed in-order packet parked (filled_front == 1); payload<=2B" text="selective_ack() while in-order data is still parked in the reassembly queue: the mask is relative to the FIRST HOLE (bit 0 = sequence number ack_nr + 2), not to the start of the queue"
#[kani::proof]
#[kani::unwind(12)]
fn selective_ack_c3_shifted() {
    let q = any_ooq::<3>();
    kani::assume(q.filled_front == 1);
    let held = slot_of(&q.data[2]).kind != 0;
    let s = q.selective_ack();
    assert!(s.is_some() == held);
    if let Some(s) = s {
        let raw = s.as_bytes();
        assert!(s.len() == 64 && raw[0] == 1 && raw[1] == 0 && raw[2] == 0 && raw[3] == 0 && raw[4] == 0 && raw[5] == 0 && raw[6] == 0 && raw[7] == 0);
    }
}

//@ harness id=ooq.k.selective_ack.c3 kind=bounded props=C04 tier=thorough timeout=2400 bound="OOQ_CAP==3; payload<=2B" text="selective_ack(): None iff nothing is held beyond the first hole; otherwise a 64-bit mask whose bit k is set exactly when the packet at slot filled_front+1+k (sequence number ack_nr+2+k) is held; every other bit clear"
#[kani::proof]
#[kani::unwind(12)]
fn selective_ack_c3() { check_selective_ack::<3>(); }

//@ harness id=ooq.k.selective_ack.c5 kind=bounded props=C04 tier=thorough timeout=3000 bound="OOQ_CAP==5; payload<=2B" text="same as ooq.k.selective_ack.c3 at capacity 5"
#[kani::proof]
#[kani::unwind(12)]
fn selective_ack_c5() { check_selective_ack::<5>(); }

//@ harness id=ooq.k.vacuity kind=vacuity props=C04,C01,C10 tier=quick timeout=600 text="wf reassembly states include: a gap with data behind it, a full queue, a stored FIN, an empty queue"
#[kani::proof]
#[kani::unwind(6)]
fn vacuity() {
    let q = any_ooq::<3>();
    kani::cover!(q.filled_front == 0 && q.len == 2, "two packets held behind a hole at the front");
    kani::cover!(q.len == 3, "full");
    kani::cover!(q.len == 0, "empty");
    kani::cover!(q.filled_front == 1 && slot_of(&q.data[2]).kind == 2, "FIN held out of order");
}
