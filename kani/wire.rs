//@ target src/raw.rs
// U-wire (C11, C10): header codec against an independent BEP-29 reference walker written from the specification
// (not from the code): version nibble 1, type nibble <= 4, extension chain [next][len][len bytes]* that must lie
// entirely inside the datagram.
use super::*;
use crate::message::UtpMessage;
use crate::raw::ext_close_reason::LibTorrentCloseReason;
use crate::raw::selective_ack::SelectiveAck;

/// What the reference walker extracts from a datagram.
struct RefParse {
    hlen: usize,
    sack: Option<(usize, usize)>,   // (start, len) of the data of the LAST extension with id 1
    close: Option<usize>,           // start of the data of the LAST extension with id 3 and len 4
}

fn ref_walk(buf: &[u8]) -> Option<RefParse> {
    if buf.len() < 20 { return None; }
    if buf[0] & 0x0f != 1 { return None; }
    if (buf[0] >> 4) > 4 { return None; }
    let mut next = buf[1];
    let mut pos = 20usize;
    let mut out = RefParse { hlen: 0, sack: None, close: None };
    while next != 0 {
        if pos + 2 > buf.len() { return None; }
        let id = next;
        next = buf[pos];
        let l = buf[pos + 1] as usize;
        if pos + 2 + l > buf.len() { return None; }
        if id == 1 { out.sack = Some((pos + 2, l)); }
        if id == 3 && l == 4 { out.close = Some(pos + 2); }
        pos += 2 + l;
    }
    out.hlen = pos;
    Some(out)
}

fn be16(b: &[u8], i: usize) -> u16 { ((b[i] as u16) << 8) | b[i + 1] as u16 }
fn be32(b: &[u8], i: usize) -> u32 { ((b[i] as u32) << 24) | ((b[i + 1] as u32) << 16) | ((b[i + 2] as u32) << 8) | b[i + 3] as u32 }

fn any_type() -> Type {
    match kani::any::<u8>() % 5 { 0 => Type::ST_DATA, 1 => Type::ST_FIN, 2 => Type::ST_STATE, 3 => Type::ST_RESET, _ => Type::ST_SYN }
}

fn check_parse_against_reference<const MAXLEN: usize>() {
    let buf: [u8; MAXLEN] = kani::any();
    let len: usize = kani::any();
    kani::assume(len <= MAXLEN);
    let b = &buf[..len];
    let got = UtpHeader::deserialize(b);           // W1: no panic for any buffer
    let want = ref_walk(b);
    assert!(got.is_some() == want.is_some());      // W2: acceptance set
    if let (Some((h, n)), Some(w)) = (got, want) {
        assert!(n == w.hlen);                      // W2: payload boundary
        // W3: fields are the big-endian bytes
        assert!(h.htype.to_number() == b[0] >> 4);
        assert!(h.connection_id.0 == be16(b, 2));
        assert!(h.timestamp_microseconds == be32(b, 4));
        assert!(h.timestamp_difference_microseconds == be32(b, 8));
        assert!(h.wnd_size == be32(b, 12));
        assert!(h.seq_nr.0 == be16(b, 16));
        assert!(h.ack_nr.0 == be16(b, 18));
        // extensions: unknown ids and a close-reason of length != 4 are skipped (they only move the boundary)
        match (h.extensions.close_reason, w.close) {
            (None, None) => {}
            (Some(c), Some(at)) => assert!(c.0 == be32(b, at) as u16),
            _ => assert!(false),
        }
        match (h.extensions.selective_ack, w.sack) {
            (None, None) => {}
            (Some(s), Some((at, l))) => {
                assert!(s.len() == 8 * l);
                let raw = s.as_bytes();
                assert!(raw.len() == 8);
                let mut i = 0;
                while i < 8 { assert!(raw[i] == if i < l { b[at + i] } else { 0 }); i += 1; }
            }
            _ => assert!(false),
        }
    }
}

//@ harness id=wire.k.parse_vs_reference.28 kind=bounded props=C11,C10 tier=quick timeout=900 bound="DGRAM<=28 bytes (header + chains of up to 4 extensions)" text="UtpHeader::deserialize on ANY buffer of length <= 28: no panic; accepts exactly what the reference BEP-29 walker accepts; same header length; fields == big-endian bytes; last SACK / last 4-byte close-reason extension decoded, others skipped"
#[kani::proof]
#[kani::unwind(10)]
fn parse_vs_reference_28() { check_parse_against_reference::<28>(); }

//@ harness id=wire.k.parse_vs_reference.40 kind=bounded props=C11,C10 tier=quick timeout=1800 bound="DGRAM<=40 bytes (chains of up to 10 extensions)" text="same as wire.k.parse_vs_reference.28 for buffers up to 40 bytes"
#[kani::proof]
#[kani::unwind(13)]
fn parse_vs_reference_40() { check_parse_against_reference::<40>(); }

fn check_message<const MAXLEN: usize>() {
    let buf: [u8; MAXLEN] = kani::any();
    let len: usize = kani::any();
    kani::assume(len <= MAXLEN);
    let b = &buf[..len];
    let got = UtpMessage::deserialize(b);
    let want = ref_walk(b);
    match want {
        None => assert!(got.is_none()),
        Some(w) => {
            let is_data = (b[0] >> 4) == 0;
            let has_payload = len > w.hlen;
            // W4: payload present exactly for data packets
            assert!(got.is_some() == (is_data == has_payload));
            if let Some(m) = got {
                assert!(m.payload().len() == len - w.hlen);
                let mut i = 0;
                while i < len - w.hlen { assert!(m.payload()[i] == b[w.hlen + i]); i += 1; }
                assert!(m.header.seq_nr.0 == be16(b, 16));
            }
        }
    }
}

//@ harness id=wire.k.message.24 kind=bounded props=C11,C10 tier=quick timeout=900 bound="DGRAM<=24 bytes" text="UtpMessage::deserialize on ANY buffer of length <= 24: no panic; Some iff header accepted and (ST_DATA <=> payload non-empty); payload == bytes after the header length (unknown extensions do not shift the boundary)"
#[kani::proof]
#[kani::unwind(26)]
fn message_24() { check_message::<24>(); }

//@ harness id=wire.k.message.32 kind=bounded props=C11,C10 tier=quick timeout=1800 bound="DGRAM<=32 bytes" text="same as wire.k.message.24 for buffers up to 32 bytes"
#[kani::proof]
#[kani::unwind(34)]
fn message_32() { check_message::<32>(); }

fn any_header() -> UtpHeader {
    let mut h = UtpHeader::default();
    h.htype = any_type();
    h.connection_id = SeqNr(kani::any());
    h.timestamp_microseconds = kani::any();
    h.timestamp_difference_microseconds = kani::any();
    h.wnd_size = kani::any();
    h.seq_nr = SeqNr(kani::any());
    h.ack_nr = SeqNr(kani::any());
    if kani::any() {
        // canonical 64-bit SACK, the form SelectiveAck::new produces (longer SACKs are truncated by design)
        let bytes: [u8; 8] = kani::any();
        h.extensions.selective_ack = Some(SelectiveAck::deserialize(&bytes));
    }
    if kani::any() {
        h.extensions.close_reason = Some(LibTorrentCloseReason(kani::any()));
    }
    h
}

fn same_header(a: &UtpHeader, b: &UtpHeader) -> bool {
    let base = a.htype == b.htype && a.connection_id == b.connection_id && a.seq_nr == b.seq_nr && a.ack_nr == b.ack_nr
        && a.wnd_size == b.wnd_size && a.timestamp_microseconds == b.timestamp_microseconds
        && a.timestamp_difference_microseconds == b.timestamp_difference_microseconds
        && a.extensions.close_reason == b.extensions.close_reason;
    let sack = match (a.extensions.selective_ack, b.extensions.selective_ack) {
        (None, None) => true,
        (Some(x), Some(y)) => x.len() == y.len() && x.as_bytes() == y.as_bytes(),
        _ => false,
    };
    base && sack
}

fn expected_len(h: &UtpHeader) -> usize {
    20 + if h.extensions.selective_ack.is_some() { 10 } else { 0 } + if h.extensions.close_reason.is_some() { 6 } else { 0 }
}

//@ harness id=wire.k.roundtrip kind=complete props=C11 tier=quick timeout=900 text="for EVERY header (all field values, with/without a canonical 64-bit SACK, with/without close reason): deserialize(serialize(h)) == (h, same length); length == 20 + 10[sack] + 6[close]; an independent walker accepts the output"
#[kani::proof]
#[kani::unwind(10)]
fn roundtrip() {
    let h = any_header();
    let mut buf = [0u8; 36];
    let n = h.serialize(&mut buf).unwrap();
    assert!(n == expected_len(&h));
    assert!(buf[0] & 0x0f == 1 && (buf[0] >> 4) == h.htype.to_number());
    let w = ref_walk(&buf[..n]);
    assert!(w.is_some() && w.unwrap().hlen == n);
    let (h2, n2) = UtpHeader::deserialize(&buf[..n]).unwrap();
    assert!(n2 == n);
    assert!(same_header(&h, &h2));
}

//@ harness id=wire.k.serialize_any_buffer kind=bounded props=C11,C10 tier=quick timeout=900 bound="output buffer length <= 40 (symbolic)" text="serialize into any buffer: Err iff shorter than 20 bytes, never panics, never writes at or past the returned length, and the written prefix is always a version-1 packet whose extension chain the reference walker accepts with exactly that length (extensions that do not fit are omitted as a whole)"
#[kani::proof]
#[kani::unwind(42)]
fn serialize_any_buffer() {
    let h = any_header();
    let mut buf = [0xA5u8; 40];
    let len: usize = kani::any();
    kani::assume(len <= 40);
    let r = h.serialize(&mut buf[..len]);
    assert!(r.is_err() == (len < 20));
    if let Ok(n) = r {
        assert!(n <= len && n >= 20 && n <= expected_len(&h));
        let mut i = n;
        while i < 40 { assert!(buf[i] == 0xA5); i += 1; }
        let w = ref_walk(&buf[..n]);
        assert!(w.is_some() && w.unwrap().hlen == n);
        if len >= 36 { assert!(n == expected_len(&h)); }
    }
}

//@ harness id=wire.k.type_codes kind=complete props=C11 tier=quick timeout=300 text="Type::from_number(n) is Some iff n <= 4; from_number(to_number(t)) == Some(t); to_number(from_number(n)) == n"
#[kani::proof]
fn type_codes() {
    let n: u8 = kani::any();
    match Type::from_number(n) {
        Some(t) => assert!(n <= 4 && t.to_number() == n),
        None => assert!(n > 4),
    }
    let t = any_type();
    assert!(Type::from_number(t.to_number()) == Some(t));
}

//@ harness id=wire.k.close_reason_codec kind=complete props=C11 tier=quick timeout=300 text="LibTorrentCloseReason: parse(as_bytes(x)) == x for all x; as_bytes is the big-endian u32"
#[kani::proof]
fn close_reason_codec() {
    let x: u16 = kani::any();
    let c = LibTorrentCloseReason(x);
    let b = c.as_bytes();
    assert!(b[0] == 0 && b[1] == 0 && b[2] == (x >> 8) as u8 && b[3] == x as u8);
    assert!(LibTorrentCloseReason::parse(b) == c);
}

//@ harness id=wire.k.sack_codec kind=bounded props=C11,C04,C10 tier=quick timeout=600 bound="SACK extension payload <= 12 bytes" text="SelectiveAck::deserialize(bytes) (a selective ACK of ANY length a peer may send, here up to 12 bytes): len() == 8*|bytes|; as_bytes() == first min(|bytes|,8) bytes zero-padded to 8; never panics"
#[kani::proof]
#[kani::unwind(14)]
fn sack_codec() {
    let bytes: [u8; 12] = kani::any();
    let l: usize = kani::any();
    kani::assume(l <= 12);
    let s = SelectiveAck::deserialize(&bytes[..l]);
    assert!(s.len() == 8 * l);
    let raw = s.as_bytes();
    assert!(raw.len() == 8);
    let mut i = 0;
    while i < 8 { assert!(raw[i] == if i < l { bytes[i] } else { 0 }); i += 1; }
}

//@ harness id=wire.k.vacuity kind=vacuity props=C11,C10 tier=quick timeout=600 text="the symbolic datagrams include accepted packets with two extensions, rejected chains that overrun the buffer, and data packets with payload"
#[kani::proof]
#[kani::unwind(10)]
fn vacuity() {
    let buf: [u8; 28] = kani::any();
    let len: usize = kani::any();
    kani::assume(len <= 28);
    let b = &buf[..len];
    let w = ref_walk(b);
    kani::cover!(w.is_some() && w.as_ref().unwrap().sack.is_some() && w.as_ref().unwrap().close.is_some(), "both extensions present");
    kani::cover!(w.is_none() && len >= 22 && b[0] == 0x01 && b[1] != 0, "chain overruns the datagram");
    kani::cover!(w.is_some() && w.as_ref().unwrap().hlen < len && b[0] >> 4 == 0, "data packet with payload");
    kani::cover!(w.is_some() && w.as_ref().unwrap().hlen == 28, "chain fills the datagram exactly");
}
