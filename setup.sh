#!/bin/sh
# Build what the checks reuse between runs: the Kani dependency cache (cargo target dir) under /verif/.cache.
# Offline; everything else is rebuilt from /repo's working tree by every check.
set -e
cd "$(dirname "$0")"
mkdir -p .cache evidence replays
export CARGO_NET_OFFLINE=true
python3 lib/warm.py || true
