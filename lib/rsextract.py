"""Token-level scanner and item extractor for Rust source text.

Used to cut the *real* functions out of a snapshot of /repo on every run, so that the
text handed to Verus is the repository's text (minus the documented drop rules R1..R6),
never a hand-written copy.

No third-party dependencies.
"""
from __future__ import annotations

import re
from dataclasses import dataclass


class ExtractError(Exception):
    """Anchor lost / unsupported construct. Always maps to exit 2 (UNDECIDED), never to a violation."""


@dataclass
class Tok:
    kind: str  # ident | punct | lit | lifetime | comment | ws
    text: str
    start: int
    end: int


_IDENT = re.compile(r"[A-Za-z_][A-Za-z0-9_]*")
_NUM = re.compile(r"[0-9][0-9A-Za-z_]*(\.[0-9][0-9A-Za-z_]*)?")


def tokenize(src: str) -> list[Tok]:
    toks: list[Tok] = []
    i, n = 0, len(src)
    while i < n:
        c = src[i]
        if c.isspace():
            j = i
            while j < n and src[j].isspace():
                j += 1
            toks.append(Tok("ws", src[i:j], i, j))
            i = j
        elif src.startswith("//", i):
            j = src.find("\n", i)
            j = n if j < 0 else j
            toks.append(Tok("comment", src[i:j], i, j))
            i = j
        elif src.startswith("/*", i):
            depth, j = 1, i + 2
            while j < n and depth:
                if src.startswith("/*", j):
                    depth += 1
                    j += 2
                elif src.startswith("*/", j):
                    depth -= 1
                    j += 2
                else:
                    j += 1
            toks.append(Tok("comment", src[i:j], i, j))
            i = j
        elif c == '"' or (c in "br" and _starts_string(src, i)):
            j = _scan_string(src, i)
            toks.append(Tok("lit", src[i:j], i, j))
            i = j
        elif c == "'":
            # char literal or lifetime
            m = re.match(r"'(\\.[^']*|[^'\\])'", src[i:])
            if m:
                j = i + m.end()
                toks.append(Tok("lit", src[i:j], i, j))
                i = j
            else:
                m = _IDENT.match(src, i + 1)
                if not m:
                    raise ExtractError(f"cannot tokenize quote at byte {i}")
                toks.append(Tok("lifetime", src[i:m.end()], i, m.end()))
                i = m.end()
        elif c.isalpha() or c == "_":
            m = _IDENT.match(src, i)
            toks.append(Tok("ident", m.group(0), i, m.end()))
            i = m.end()
        elif c.isdigit():
            m = _NUM.match(src, i)
            j = m.end()
            # do not swallow `..` of a range or a method call on an integer
            if "." in m.group(0) and src[m.start() + m.group(0).index(".") + 1: m.start() + m.group(0).index(".") + 2] == ".":
                j = m.start() + m.group(0).index(".")
            toks.append(Tok("lit", src[i:j], i, j))
            i = j
        else:
            toks.append(Tok("punct", c, i, i + 1))
            i += 1
    return toks


def _starts_string(src: str, i: int) -> bool:
    return re.match(r'(b?r#*"|b")', src[i:i + 8]) is not None and (i == 0 or not (src[i - 1].isalnum() or src[i - 1] == "_"))


def _scan_string(src: str, i: int) -> int:
    m = re.match(r'b?r(#*)"', src[i:i + 40])
    if m:
        close = '"' + m.group(1)
        j = src.find(close, i + m.end())
        if j < 0:
            raise ExtractError("unterminated raw string")
        return j + len(close)
    j = i + (2 if src[i] == "b" else 1)
    while j < len(src):
        if src[j] == "\\":
            j += 2
        elif src[j] == '"':
            return j + 1
        else:
            j += 1
    raise ExtractError("unterminated string")


OPEN = {"(": ")", "[": "]", "{": "}"}
CLOSE = {")", "]", "}"}


class Source:
    def __init__(self, path: str, text: str):
        self.path = path
        self.text = text
        self.toks = tokenize(text)
        self.sig = [k for k, t in enumerate(self.toks) if t.kind not in ("ws", "comment")]
        # matching bracket table over significant tokens
        self.match: dict[int, int] = {}
        stack: list[int] = []
        for k in self.sig:
            t = self.toks[k]
            if t.kind == "punct" and t.text in OPEN:
                stack.append(k)
            elif t.kind == "punct" and t.text in CLOSE:
                if not stack:
                    raise ExtractError(f"{path}: unbalanced '{t.text}' at byte {t.start}")
                o = stack.pop()
                if OPEN[self.toks[o].text] != t.text:
                    raise ExtractError(f"{path}: mismatched bracket at byte {t.start}")
                self.match[o] = k
                self.match[k] = o
        if stack:
            raise ExtractError(f"{path}: unclosed bracket at byte {self.toks[stack[-1]].start}")

    # ---- navigation over significant tokens -------------------------------------------------
    def next_sig(self, k: int) -> int | None:
        k += 1
        while k < len(self.toks):
            if self.toks[k].kind not in ("ws", "comment"):
                return k
            k += 1
        return None

    def prev_sig(self, k: int) -> int | None:
        k -= 1
        while k >= 0:
            if self.toks[k].kind not in ("ws", "comment"):
                return k
            k -= 1
        return None

    def children(self, lo: int, hi: int):
        """Yield indices of significant tokens in (lo, hi) that are at nesting depth 0 relative to that range."""
        k = self.next_sig(lo)
        while k is not None and k < hi:
            yield k
            t = self.toks[k]
            if t.kind == "punct" and t.text in OPEN:
                k = self.match[k]
            k = self.next_sig(k)

    # ---- item location ----------------------------------------------------------------------
    def _item_start(self, kw: int, lo: int) -> int:
        """Walk back from keyword token over visibility/qualifiers/attributes/doc comments."""
        k = kw
        while True:
            p = self.prev_sig(k)
            if p is None or p <= lo:
                break
            t = self.toks[p]
            if t.kind == "ident" and t.text in ("pub", "const", "async", "unsafe", "extern", "default"):
                k = p
                continue
            if t.kind == "punct" and t.text == ")":  # pub(crate)
                o = self.match[p]
                pp = self.prev_sig(o)
                if pp is not None and self.toks[pp].text == "pub":
                    k = pp
                    continue
                break
            if t.kind == "punct" and t.text == "]":  # attribute
                o = self.match[p]
                h = self.prev_sig(o)
                if h is not None and self.toks[h].text == "#":
                    k = h
                    continue
                if h is not None and self.toks[h].text == "!":
                    break
                break
            break
        return k

    def _find_in(self, lo: int, hi: int, kind: str, name: str) -> tuple[int, int] | None:
        """Find item `kind name` among depth-0 children of token range (lo,hi). Returns (start_tok, end_tok) inclusive."""
        for k in self.children(lo, hi):
            t = self.toks[k]
            if t.kind != "ident":
                continue
            if kind in ("fn", "struct", "enum", "const", "type", "static") and t.text == kind:
                nk = self.next_sig(k)
                if nk is None or self.toks[nk].text != name:
                    continue
                if kind == "const":
                    # `const fn` is not a const item
                    pass
                start = self._item_start(k, lo)
                end = self._item_end(k, hi)
                return start, end
            if kind == "macro" and t.text == "macro_rules":
                a = self.next_sig(k)
                b = self.next_sig(a) if a is not None else None
                if a is None or b is None or self.toks[a].text != "!" or self.toks[b].text != name:
                    continue
                c = self.next_sig(b)
                end = self.match[c]
                e2 = self.next_sig(end)
                if e2 is not None and self.toks[e2].text == ";":
                    end = e2
                return self._item_start(k, lo), end
        return None

    def _item_end(self, kw: int, hi: int) -> int:
        """End token of the item whose keyword is at kw: first depth-0 `;` or `{...}` block."""
        k = self.next_sig(kw)
        while k is not None and k < hi:
            t = self.toks[k]
            if t.kind == "punct" and t.text == ";":
                return k
            if t.kind == "punct" and t.text == "{":
                return self.match[k]
            if t.kind == "punct" and t.text in OPEN:
                k = self.match[k]
            k = self.next_sig(k)
        raise ExtractError(f"{self.path}: item end not found")

    def _find_impl(self, header: str, lo: int = -1, hi: int | None = None) -> tuple[int, int, int]:
        """Find `impl <header> {`; header compared with all whitespace removed. Returns (start, open_brace, close_brace)."""
        want = re.sub(r"\s+", "", header)
        found = []
        if hi is None:
            hi = len(self.toks)
        for k in self.children(lo, hi):
            t = self.toks[k]
            if t.kind == "ident" and t.text == "impl":
                j = self.next_sig(k)
                parts = []
                while j is not None and not (self.toks[j].kind == "punct" and self.toks[j].text == "{"):
                    parts.append(self.toks[j].text)
                    if self.toks[j].kind == "punct" and self.toks[j].text in OPEN:
                        # include the bracketed group verbatim
                        inner_end = self.match[j]
                        jj = self.next_sig(j)
                        while jj is not None and jj <= inner_end:
                            parts.append(self.toks[jj].text)
                            jj = self.next_sig(jj)
                        j = inner_end
                    j = self.next_sig(j)
                if j is None:
                    continue
                got = "".join(parts)
                if got == want:
                    found.append((self._item_start(k, lo), j, self.match[j]))
        if not found:
            raise ExtractError(f"{self.path}: anchor lost: impl `{header}` not found")
        return found  # type: ignore[return-value]

    def locate(self, item: str) -> tuple[int, int]:
        """item syntax:
              fn NAME | struct NAME | enum NAME | const NAME | macro NAME
              impl HEADER                      (whole impl block)
              impl HEADER :: fn NAME           (method; all impl blocks with that header are searched)
              mod NAME :: <item>               (item inside an inline module)
        Returns (start_tok, end_tok) inclusive.
        """
        item = item.strip()
        lo, hi = -1, len(self.toks)
        while item.startswith("mod "):
            modname, _, rest = item[4:].partition("::")
            r = None
            for k in self.children(lo, hi):
                t = self.toks[k]
                if t.kind == "ident" and t.text == "mod":
                    nk = self.next_sig(k)
                    if nk is not None and self.toks[nk].text == modname.strip():
                        b = self.next_sig(nk)
                        if b is not None and self.toks[b].text == "{":
                            r = (b, self.match[b])
            if r is None:
                raise ExtractError(f"{self.path}: anchor lost: mod `{modname.strip()}` not found")
            lo, hi = r
            item = rest.strip()
        if item.startswith("impl "):
            header, sep, rest = item[5:].partition(" :: ")
            impls = self._find_impl(header.strip(), lo, hi)
            if not sep:
                if len(impls) != 1:
                    raise ExtractError(f"{self.path}: impl `{header}` is ambiguous ({len(impls)} blocks)")
                s, _, c = impls[0]
                return s, c
            kind, name = rest.split()
            hits = []
            for (_, o, c) in impls:
                r = self._find_in(o, c, kind, name)
                if r:
                    hits.append(r)
            if len(hits) != 1:
                raise ExtractError(f"{self.path}: anchor lost: `{item}` found {len(hits)} times")
            return hits[0]
        kind, name = item.split()
        r = self._find_in(lo, hi, kind, name)
        if not r:
            raise ExtractError(f"{self.path}: anchor lost: `{item}` not found")
        return r

    def text_of(self, s: int, e: int) -> str:
        return self.text[self.toks[s].start:self.toks[e].end]


# =============================================================================================
# Drop rules and contract splicing, applied to an extracted item (re-tokenized on its own)
# =============================================================================================

LOG_MACROS = {
    "trace", "debug", "info", "warn", "error", "event",
    "trace_every_ms", "debug_every_ms", "warn_every_ms", "info_every_ms", "error_every_ms",
}
DROP_ATTRS = ("must_use", "allow", "inline", "track_caller", "doc", "cfg(test)", "instrument", "tracing::instrument", "error", "from")
KEEP_DERIVES = ("Clone", "Copy", "PartialEq", "Eq")


@dataclass
class Contract:
    requires: list[str]
    ensures: list[tuple[str, str]]  # (obligation id, clause)
    prologue: str | None
    loops: dict[int, dict]          # ordinal -> {"invariant": [(id, clause)], "decreases": str, "ensures": [...]}
    rename: str | None = None
    result: str = "r"
    attrs: list[str] | None = None
    opens: bool = False
    spec_decreases: str | None = None


@dataclass
class Rendered:
    text: str
    # (relative line number within text, obligation id)
    line_ids: list[tuple[int, str]]
    fired: list[str]


def _side_effect_free(tokens: list[Tok]) -> bool:
    """Refuse to drop a logging macro whose arguments could have side effects."""
    txt = "".join(t.text for t in tokens)
    for bad in ("+=", "-=", "*=", ".push", ".take(", ".pop", ".insert(", ".remove(", ".send(", ".increment(", ".next("):
        if bad in txt:
            return False
    sig = [t for t in tokens if t.kind not in ("ws", "comment")]
    for a, t in enumerate(sig):
        if t.kind == "punct" and t.text == "?":
            # `?ident` / `?expr` sigil right after '(' ',' or '=' is tracing's Debug sigil, not the try operator
            prev = sig[a - 1].text if a else "("
            if prev not in ("(", ",", "="):
                return False
    return True


def apply_drop_rules(item_text: str, path: str, keep_vis: bool = False) -> tuple[str, list[str]]:
    """R1 (visibility), R2 (logging/metrics statements), R3 (attributes, derive lists)."""
    src = Source(path, item_text)
    toks = src.toks
    drop = [False] * len(toks)
    replace: dict[int, str] = {}
    fired: list[str] = []
    span_names: set[str] = set()

    def mark(a: int, b: int):
        for x in range(a, b + 1):
            drop[x] = True

    k = 0
    sig = src.sig
    for idx, k in enumerate(sig):
        if drop[k]:
            continue
        t = toks[k]
        # R2 tracing spans: `let X = trace_span!(..);` and `let Y = X.enter();` (span guards only scope log output)
        if t.kind == "ident" and t.text == "let":
            a1 = src.next_sig(k)
            a2 = src.next_sig(a1) if a1 is not None else None
            a3 = src.next_sig(a2) if a2 is not None else None
            a4 = src.next_sig(a3) if a3 is not None else None
            if (a4 is not None and toks[a1].kind == "ident" and toks[a2].text == "=" and toks[a3].kind == "ident"
                    and toks[a3].text in ("trace_span", "debug_span", "info_span", "warn_span", "error_span") and toks[a4].text == "!"):
                op = src.next_sig(a4)
                if op is not None and toks[op].text in OPEN:
                    cl = src.match[op]
                    semi = src.next_sig(cl)
                    if semi is not None and toks[semi].text == ";" and _side_effect_free(toks[op:cl + 1]):
                        span_names.add(toks[a1].text)
                        mark(k, semi)
                        fired.append("R2")
                        continue
            if (a4 is not None and toks[a1].kind == "ident" and toks[a2].text == "=" and toks[a3].kind == "ident"
                    and toks[a3].text in span_names and toks[a4].text == "."):
                b1 = src.next_sig(a4)
                b2 = src.next_sig(b1) if b1 is not None else None
                if b2 is not None and toks[b1].text == "enter" and toks[b2].text == "(":
                    semi = src.next_sig(src.match[b2])
                    if semi is not None and toks[semi].text == ";":
                        mark(k, semi)
                        fired.append("R2")
                        continue
        # R1 visibility
        if t.kind == "ident" and t.text == "pub" and not keep_vis:
            nk = src.next_sig(k)
            if nk is not None and toks[nk].text == "(":
                inner = src.text_of(nk, src.match[nk])
                if re.fullmatch(r"\(\s*(crate|super|self|in\s+[\w:]+)\s*\)", inner):
                    mark(k, src.match[nk])
                    fired.append("R1")
                    continue
            drop[k] = True
            fired.append("R1")
            continue
        # R3 attributes
        if t.kind == "punct" and t.text == "#":
            nk = src.next_sig(k)
            if nk is not None and toks[nk].text == "[":
                body = re.sub(r"\s+", "", src.text_of(nk, src.match[nk])[1:-1])
                if body.startswith("derive("):
                    names = [x for x in body[len("derive("):-1].split(",") if x]
                    kept = [x for x in names if x in KEEP_DERIVES]
                    mark(k, src.match[nk])
                    if kept:
                        replace[k] = "#[derive(" + ", ".join(kept) + ")]"
                    if kept != names:
                        fired.append("R3")
                    continue
                if body == "default":  # #[default] on enum variant (Default derive dropped)
                    mark(k, src.match[nk])
                    fired.append("R3")
                    continue
                if any(body == a or body.startswith(a + "(") or body.startswith(a + "=") for a in DROP_ATTRS):
                    mark(k, src.match[nk])
                    fired.append("R3")
                    # cfg(test) removes the whole following item
                    if body == "cfg(test)":
                        raise ExtractError(f"{path}: #[cfg(test)] inside an extracted item is not supported")
                    continue
                if body.startswith("cfg(feature="):
                    # features are off by default: drop attribute and the following statement/block/item
                    j = src.next_sig(src.match[nk])
                    end = _stmt_end(src, j)
                    mark(k, end)
                    fired.append("R3")
                    continue
        # R2 logging macros
        if t.kind == "ident" and (t.text in LOG_MACROS or t.text == "tracing"):
            j = k
            name_tok = k
            if t.text == "tracing":
                a = src.next_sig(k)
                b = src.next_sig(a) if a is not None else None
                c = src.next_sig(b) if b is not None else None
                if not (a is not None and b is not None and c is not None and toks[a].text == ":" and toks[b].text == ":" and toks[c].text in LOG_MACROS):
                    continue
                name_tok = c
            bang = src.next_sig(name_tok)
            if bang is None or toks[bang].text != "!":
                continue
            op = src.next_sig(bang)
            if op is None or toks[op].text not in OPEN:
                continue
            cl = src.match[op]
            if not _side_effect_free(toks[op:cl + 1]):
                raise ExtractError(f"{path}: logging macro `{t.text}!` has arguments that may have side effects; refusing to drop it")
            after = src.next_sig(cl)
            if after is not None and toks[after].text == ";":
                mark(j, after)
            else:
                mark(j, cl)
                replace[j] = "()"
            fired.append("R2")
            continue
        # R2 metrics statements: METRICS.<field>.<method>(...);
        if t.kind == "ident" and t.text == "METRICS":
            p = src.prev_sig(k)
            at_stmt_start = p is None or toks[p].text in ("{", ";", "}") or toks[p].text == ">"  # `=>`
            j = src.next_sig(k)
            if not at_stmt_start or j is None or toks[j].text != ".":
                raise ExtractError(f"{path}: METRICS used in expression position; refusing to drop")
            end = k
            while True:
                n1 = src.next_sig(end)
                if n1 is None:
                    break
                if toks[n1].text == ".":
                    n2 = src.next_sig(n1)
                    end = n2
                    n3 = src.next_sig(n2)
                    if n3 is not None and toks[n3].text == "(":
                        end = src.match[n3]
                    continue
                break
            after = src.next_sig(end)
            if after is not None and toks[after].text == ";":
                mark(k, after)
            else:
                mark(k, end)
                replace[k] = "()"
            fired.append("R2")
            continue
    out = []
    for x, t in enumerate(toks):
        if x in replace:
            out.append(replace[x])
        if not drop[x]:
            out.append(t.text)
    text = "".join(out)
    # tidy: collapse lines that became blank
    text = re.sub(r"\n[ \t]*\n([ \t]*\n)+", "\n\n", text)
    return text, sorted(set(fired))


def _stmt_end_in(src: Source, k: int, limit: int) -> int:
    """End of the depth-0 statement starting at significant token k inside a block that closes at token `limit`: the first `;` at
    depth 0, or the closing brace of a block-like statement (if/match/while/for/loop/unsafe/{..}) not followed by an operator."""
    j = k
    first = src.toks[k]
    blocklike = first.kind == "ident" and first.text in ("if", "match", "while", "for", "loop", "unsafe") or first.text == "{"
    last = k
    while j is not None and j < limit:
        t = src.toks[j]
        if t.kind == "punct" and t.text == ";":
            return j
        if t.kind == "punct" and t.text in OPEN:
            e = src.match[j]
            if t.text == "{" and blocklike:
                n = src.next_sig(e)
                if n is None or n >= limit:
                    return e
                nt = src.toks[n]
                if nt.kind == "ident" and nt.text == "else":
                    j = n
                    last = n
                    j = src.next_sig(j)
                    continue
                if not (nt.kind == "punct" and nt.text in (".", "?", ";")):
                    return e
            j = e
        last = j
        j = src.next_sig(j)
    return last


def _stmt_end(src: Source, k: int) -> int:
    """End of the statement/item starting at significant token k."""
    j = k
    while j is not None:
        t = src.toks[j]
        if t.kind == "punct" and t.text == ";":
            return j
        if t.kind == "punct" and t.text == "{":
            e = src.match[j]
            n = src.next_sig(e)
            if n is not None and src.toks[n].text == ";":
                return n
            return e
        if t.kind == "punct" and t.text in OPEN:
            j = src.match[j]
        j = src.next_sig(j)
    raise ExtractError("statement end not found")


def splice_contract(fn_text: str, path: str, c: Contract) -> Rendered:
    """R4: name the result, splice requires/ensures between signature and body, prologue at body start,
    invariants/decreases at loop heads selected by ordinal (source order of `while`/`loop`/`for` keywords)."""
    src = Source(path, fn_text)
    toks = src.toks
    # locate `fn`
    fnk = None
    for k in src.children(-1, len(toks)):
        if toks[k].kind == "ident" and toks[k].text == "fn":
            fnk = k
            break
    if fnk is None:
        raise ExtractError(f"{path}: no fn in extracted item")
    # parameter list
    k = src.next_sig(fnk)  # name
    name_tok = k
    k = src.next_sig(k)
    if toks[k].text == "<":
        depth = 0
        while True:
            if toks[k].text == "<":
                depth += 1
            elif toks[k].text == ">" and toks[src.prev_sig(k)].text != "-":
                depth -= 1
                if depth == 0:
                    break
            k = src.next_sig(k)
        k = src.next_sig(k)
    if toks[k].text != "(":
        raise ExtractError(f"{path}: cannot find parameter list")
    params_close = src.match[k]
    # body open brace: first depth-0 `{` after params
    body_open = None
    j = src.next_sig(params_close)
    while j is not None:
        if toks[j].kind == "punct" and toks[j].text == "{":
            body_open = j
            break
        if toks[j].kind == "punct" and toks[j].text in OPEN:
            j = src.match[j]
        j = src.next_sig(j)
    if body_open is None:
        raise ExtractError(f"{path}: fn without body")
    body_close = src.match[body_open]
    # return type
    a = src.next_sig(params_close)
    has_ret = a is not None and toks[a].text == "-" and toks[src.next_sig(a)].text == ">"
    where_tok = None
    j = a
    while j is not None and j < body_open:
        if toks[j].kind == "ident" and toks[j].text == "where":
            where_tok = j
            break
        if toks[j].kind == "punct" and toks[j].text in OPEN:
            j = src.match[j]
        j = src.next_sig(j)
    sig_end = where_tok if where_tok is not None else body_open  # exclusive
    head = src.text[:toks[params_close].end]
    if c.rename:
        head = src.text[:toks[name_tok].start] + c.rename + src.text[toks[name_tok].end:toks[params_close].end]
    if has_ret:
        arrow_end = toks[src.next_sig(a)].end
        ret_ty = src.text[arrow_end:toks[sig_end].start].strip()
        ret = f" -> ({c.result}: {ret_ty})"
    else:
        ret = ""
    where_txt = ""
    if where_tok is not None:
        where_txt = "\n    " + src.text[toks[where_tok].start:toks[body_open].start].strip()

    # R4 receiver rule: for a `&self` (or by-value) receiver the pre- and post-state of `self` coincide, and Verus rejects
    # old(self)/final(self) on it - so a contract written for `&mut self` stays readable when the function is changed to
    # `&self` (and fails where it no longer holds) instead of losing its anchor
    params_txt = re.sub(r"\s+", "", src.text[toks[k].end:toks[params_close].start])
    if not params_txt.startswith("&mutself") and not re.match(r"&'[a-z_]+mutself", params_txt):
        def _collapse(t: str) -> str:
            return re.sub(r"\b(?:old|final)\(\s*self\s*\)", "self", t)
        c = Contract(requires=[_collapse(x) for x in c.requires], ensures=[(o, _collapse(t)) for (o, t) in c.ensures], prologue=c.prologue,
                     loops={n: {"invariant": [(o, _collapse(t)) for (o, t) in lp.get("invariant", [])],
                                "decreases": (_collapse(lp["decreases"]) if lp.get("decreases") else lp.get("decreases")),
                                **{kk: vv for kk, vv in lp.items() if kk not in ("invariant", "decreases")}} for n, lp in (c.loops or {}).items()},
                     rename=c.rename, result=c.result, attrs=c.attrs, opens=c.opens, spec_decreases=c.spec_decreases)
    lines: list[str] = []
    ids: list[tuple[int, str]] = []
    pre_attrs = "".join(a + "\n" for a in (c.attrs or []))
    loop_toks = [k for k in src.sig if body_open < k < body_close and toks[k].kind == "ident" and toks[k].text in ("while", "loop", "for")
                 and not _is_for_in_type(src, k)]
    if loop_toks and c.loops:
        pre_attrs += "#[verifier::loop_isolation(false)]\n"
    out = pre_attrs + head + ret + where_txt + "\n"

    def emit(s: str, oid: str | None = None):
        nonlocal out
        if oid is not None:
            ids.append((out.count("\n"), oid))
        out += s + "\n"

    if c.requires:
        emit("    requires")
        for r in c.requires:
            emit(f"        {r},")
    if c.ensures:
        emit("    ensures")
        for oid, e in c.ensures:
            emit(f"        {e},", oid)
    if c.spec_decreases:
        emit(f"    decreases {c.spec_decreases},")
    # body with prologue and loop contracts
    body_start_line = out.count("\n")
    body = "{"
    if c.prologue:
        body += "\n        " + c.prologue
    cursor = toks[body_open].end
    for ordinal, lk in enumerate(loop_toks, start=1):
        spec = c.loops.get(ordinal)
        if not spec:
            continue
        # loop body brace: first depth-0 `{` after keyword that is followed (after match) by end-of-loop. For `while cond {`
        j = src.next_sig(lk)
        lb = None
        while j is not None and j < body_close:
            if toks[j].kind == "punct" and toks[j].text == "{":
                # struct literal in condition is not allowed in Rust without parens, so this is the body
                lb = j
                break
            if toks[j].kind == "punct" and toks[j].text in OPEN:
                j = src.match[j]
            j = src.next_sig(j)
        if lb is None:
            raise ExtractError(f"{path}: loop #{ordinal} body not found")
        body += src.text[cursor:toks[lb].start]
        body += "\n"
        base = body_start_line + body.count("\n")
        seg = ""
        if spec.get("invariant"):
            seg += "            invariant\n"
            for oid, inv in spec["invariant"]:
                ids.append((base + seg.count("\n"), oid))
                seg += f"                {inv},\n"
        if spec.get("ensures"):
            seg += "            ensures\n"
            for oid, inv in spec["ensures"]:
                ids.append((base + seg.count("\n"), oid))
                seg += f"                {inv},\n"
        if spec.get("decreases"):
            seg += f"            decreases {spec['decreases']},\n"
        body += seg + "        "
        cursor = toks[lb].start
    for ordinal in c.loops:
        if ordinal < 1 or ordinal > len(loop_toks):
            raise ExtractError(f"{path}: anchor lost: loop #{ordinal} not present (function has {len(loop_toks)} loops)")
    body += src.text[cursor:toks[body_close].end]
    out += body + src.text[toks[body_close].end:]
    return Rendered(out, ids, [])


def _is_for_in_type(src: Source, k: int) -> bool:
    """`for` in `impl X for Y` / `for<'a>` HRTB is not a loop."""
    if src.toks[k].text != "for":
        return False
    n = src.next_sig(k)
    return n is not None and src.toks[n].text == "<"


def fragment(fn_text: str, path: str, kind: str, ordinal) -> str:
    """Return the text of the ordinal-th `kind` statement (while/loop/for/match/if) in the function body, verbatim.
    kind == "let": `ordinal` is the NAME of the bound variable; the statement `let NAME ... ;` is returned."""
    src = Source(path, fn_text)
    toks = src.toks
    if kind == "stmt":
        # the statement (at ANY nesting depth of the fn body) that starts with the marker text, verbatim; must be unique
        marker = re.sub(r"\s+", "", str(ordinal))
        hits = []
        sig = src.sig
        for idx, k in enumerate(sig):
            if idx == 0:
                continue
            pt = toks[sig[idx - 1]]
            if not (pt.kind == "punct" and pt.text in ("{", "}", ";")):
                continue
            # innermost enclosing brace block
            enc = None
            for o in sig[:idx]:
                if toks[o].kind == "punct" and toks[o].text == "{" and src.match.get(o, -1) > k:
                    enc = o
            if enc is None:
                continue
            end = _stmt_end_in(src, k, src.match[enc])
            stmt = re.sub(r"\s+", "", src.text[toks[k].start:toks[end].end])
            if stmt.startswith(marker):
                hits.append((k, end))
        if len(hits) != 1:
            raise ExtractError(f"{path}: anchor lost: statement starting with `{ordinal}` found {len(hits)} times")
        k, end = hits[0]
        return src.text[toks[k].start:toks[end].end]
    if kind == "span":
        # the top-level body statements from the one starting with marker A up to and including the one starting with marker B
        # (`fragment span A ~~ B`), verbatim
        ma, _, mb = str(ordinal).partition("~~")
        ma, mb = re.sub(r"\s+", "", ma), re.sub(r"\s+", "", mb)
        fnk = next(k for k in src.sig if toks[k].kind == "ident" and toks[k].text == "fn")
        j = src.next_sig(fnk)
        body_open = None
        while j is not None:
            if toks[j].kind == "punct" and toks[j].text == "{":
                body_open = j
                break
            if toks[j].kind == "punct" and toks[j].text in OPEN:
                j = src.match[j]
            j = src.next_sig(j)
        if body_open is None:
            raise ExtractError(f"{path}: fn without body")
        body_close = src.match[body_open]
        k = src.next_sig(body_open)
        starts, ends = [], []
        while k is not None and k < body_close:
            end = _stmt_end_in(src, k, body_close)
            stmt = re.sub(r"\s+", "", src.text[toks[k].start:toks[end].end])
            if stmt.startswith(ma):
                starts.append(k)
            if stmt.startswith(mb):
                ends.append(end)
            k = src.next_sig(end)
        if len(starts) != 1 or len(ends) != 1 or toks[ends[0]].end <= toks[starts[0]].start:
            raise ExtractError(f"{path}: anchor lost: span `{ordinal}`: start found {len(starts)} times, end found {len(ends)} times")
        return src.text[toks[starts[0]].start:toks[ends[0]].end]
    if kind == "tail":
        # everything AFTER the body statement that starts with the marker text, up to the end of the fn body (tail expression included)
        marker = re.sub(r"\s+", "", str(ordinal))
        fnk = next(k for k in src.sig if toks[k].kind == "ident" and toks[k].text == "fn")
        j = src.next_sig(fnk)
        body_open = None
        while j is not None:
            if toks[j].kind == "punct" and toks[j].text == "{":
                body_open = j
                break
            if toks[j].kind == "punct" and toks[j].text in OPEN:
                j = src.match[j]
            j = src.next_sig(j)
        if body_open is None:
            raise ExtractError(f"{path}: fn without body")
        body_close = src.match[body_open]
        k = src.next_sig(body_open)
        hits = []
        while k is not None and k < body_close:
            end = _stmt_end_in(src, k, body_close)
            stmt = re.sub(r"\s+", "", src.text[toks[k].start:toks[end].end])
            if stmt.startswith(marker):
                hits.append(end)
            k = src.next_sig(end)
        if len(hits) != 1:
            raise ExtractError(f"{path}: anchor lost: statement starting with `{ordinal}` found {len(hits)} times")
        return src.text[toks[hits[0]].end:toks[body_close].start]
    if kind == "closure":
        # body (without the braces) of the ordinal-th zero-argument closure with a block body: `|| { ... }`
        hits = []
        for idx, k in enumerate(src.sig):
            t = toks[k]
            if t.kind == "punct" and t.text == "|":
                n1 = src.next_sig(k)
                if n1 is not None and toks[n1].text == "|" and toks[n1].start == t.end:
                    n2 = src.next_sig(n1)
                    if n2 is not None and toks[n2].text == "{":
                        hits.append(n2)
        if not isinstance(ordinal, int) or ordinal < 1 or ordinal > len(hits):
            raise ExtractError(f"{path}: anchor lost: closure#{ordinal} not found ({len(hits)} zero-argument block closures present)")
        o = hits[ordinal - 1]
        return src.text[toks[o].end:toks[src.match[o]].start]
    if kind == "letclosure":
        # body (without the braces) of the block closure bound by `let [mut] NAME = |params| { ... };` - `ordinal` is NAME.
        # The parameter list is not returned: the wrapper declares the same names, a renamed parameter fails to compile (exit 2).
        hits = []
        for k in src.sig:
            if toks[k].kind == "ident" and toks[k].text == "let":
                n = src.next_sig(k)
                if n is not None and toks[n].text == "mut":
                    n = src.next_sig(n)
                if n is None or toks[n].text != str(ordinal):
                    continue
                n = src.next_sig(n)
                if n is None or toks[n].text != "=":
                    continue
                n = src.next_sig(n)
                if n is None or toks[n].text != "|":
                    continue
                n = src.next_sig(n)
                while n is not None and toks[n].text != "|":
                    if toks[n].kind == "punct" and toks[n].text in OPEN:
                        n = src.match[n]
                    n = src.next_sig(n)
                if n is None:
                    continue
                n = src.next_sig(n)
                if n is not None and toks[n].text == "{":
                    hits.append(n)
        if len(hits) != 1:
            raise ExtractError(f"{path}: anchor lost: `let {ordinal} = |..| {{..}}` found {len(hits)} times")
        o = hits[0]
        return src.text[toks[o].end:toks[src.match[o]].start]
    if kind == "let":
        hits = []
        for k in src.sig:
            if toks[k].kind == "ident" and toks[k].text == "let":
                n = src.next_sig(k)
                if n is not None and toks[n].text == "mut":
                    n = src.next_sig(n)
                if n is not None and toks[n].text == str(ordinal):
                    hits.append(k)
        if len(hits) != 1:
            raise ExtractError(f"{path}: anchor lost: `let {ordinal}` found {len(hits)} times")
        return src.text[toks[hits[0]].start:toks[_stmt_end(src, hits[0])].end]
    hits = [k for k in src.sig if toks[k].kind == "ident" and toks[k].text == kind and not _is_for_in_type(src, k)]
    if ordinal < 1 or ordinal > len(hits):
        raise ExtractError(f"{path}: anchor lost: {kind}#{ordinal} not found ({len(hits)} present)")
    k = hits[ordinal - 1]
    j = src.next_sig(k)
    while j is not None:
        if toks[j].kind == "punct" and toks[j].text == "{":
            return src.text[toks[k].start:toks[src.match[j]].end]
        if toks[j].kind == "punct" and toks[j].text in OPEN:
            j = src.match[j]
        j = src.next_sig(j)
    raise ExtractError(f"{path}: {kind}#{ordinal}: body not found")


def split_or_guard_arms(text: str, path: str) -> tuple[str, int]:
    """R7: Verus rejects a match arm that has BOTH an or-pattern and a guard. Such arms are split mechanically into one arm per
    alternative (cartesian product over the components of a tuple pattern), each with the same guard and the same body, in the same
    position - the standard desugaring of or-patterns, semantics preserving because the guard and body do not bind differently per
    alternative (alternatives of an or-pattern must bind the same names). Returns (new text, number of arms split)."""
    src = Source(path, text)
    toks = src.toks
    edits = []   # (start_byte, end_byte, replacement)
    nsplit = 0
    for k in src.sig:
        if not (toks[k].kind == "ident" and toks[k].text == "match"):
            continue
        # match body brace
        j = src.next_sig(k)
        while j is not None and not (toks[j].kind == "punct" and toks[j].text == "{"):
            if toks[j].kind == "punct" and toks[j].text in OPEN:
                j = src.match[j]
            j = src.next_sig(j)
        if j is None:
            continue
        lo, hi = j, src.match[j]
        kids = list(src.children(lo, hi))
        i = 0
        while i < len(kids):
            start = kids[i]
            # pattern .. `=>`
            a = i
            arrow = None
            if_tok = None
            while a < len(kids):
                t = toks[kids[a]]
                if t.kind == "punct" and t.text == "=" and a + 1 < len(kids) and toks[kids[a + 1]].text == ">" and toks[kids[a + 1]].start == t.end:
                    arrow = a
                    break
                if t.kind == "ident" and t.text == "if" and if_tok is None:
                    if_tok = a
                a += 1
            if arrow is None:
                break
            # body
            b = arrow + 2
            if b >= len(kids):
                break
            if toks[kids[b]].kind == "punct" and toks[kids[b]].text == "{":
                body_end = src.match[kids[b]]
                nxt = b + 1
                if nxt < len(kids) and toks[kids[nxt]].text == ",":
                    nxt += 1
            else:
                c = b
                while c < len(kids) and toks[kids[c]].text != ",":
                    c += 1
                body_end = kids[c - 1] if c > b else kids[b]
                if toks[body_end].kind == "punct" and toks[body_end].text in OPEN:
                    body_end = src.match[body_end]
                nxt = c + 1
            if if_tok is not None:
                pat_toks = kids[i:if_tok]
                pat_txt = text[toks[pat_toks[0]].start:toks[src.match[pat_toks[-1]] if toks[pat_toks[-1]].text in OPEN else pat_toks[-1]].end]
                # the pattern may end with a bracket group: compute true end
                last = pat_toks[-1]
                pend = toks[src.match[last]].end if (toks[last].kind == "punct" and toks[last].text in OPEN) else toks[last].end
                pat_txt = text[toks[pat_toks[0]].start:pend]
                alts = _pattern_alternatives(pat_txt)
                if len(alts) > 1:
                    guard_txt = text[toks[kids[if_tok]].start:toks[kids[arrow]].start].rstrip()
                    body_txt = text[toks[kids[b]].start:toks[body_end].end]
                    arm_end = toks[kids[nxt - 1]].end if nxt - 1 < len(kids) and nxt - 1 >= 0 and toks[kids[nxt - 1]].text == "," else toks[body_end].end
                    rep = "\n".join(f"{alt} {guard_txt} => {body_txt}," for alt in alts)
                    edits.append((toks[start].start, arm_end, rep))
                    nsplit += 1
            i = nxt
    for a, b, rep in sorted(edits, reverse=True):
        text = text[:a] + rep + text[b:]
    return text, nsplit


def _split_depth0(s: str, sep: str) -> list[str]:
    out, depth, cur = [], 0, ""
    for ch in s:
        if ch in "([{":
            depth += 1
        elif ch in ")]}":
            depth -= 1
        if ch == sep and depth == 0:
            out.append(cur)
            cur = ""
        else:
            cur += ch
    out.append(cur)
    return out


def _pattern_alternatives(pat: str) -> list[str]:
    pat = pat.strip()
    tops = [x.strip() for x in _split_depth0(pat, "|")]
    if len(tops) > 1:
        res = []
        for t in tops:
            res += _pattern_alternatives(t)
        return res
    if pat.startswith("(") and pat.endswith(")"):
        comps = [c.strip() for c in _split_depth0(pat[1:-1], ",")]
        alts = [[]]
        for c in comps:
            ca = [x.strip() for x in _split_depth0(c, "|")]
            alts = [a + [x] for a in alts for x in ca]
        return ["(" + ", ".join(a) + ")" for a in alts]
    return [pat]
