"""Kani units: harness modules kept in /verif/kani/*.rs are appended to a scratch snapshot of the real crate as
`#[cfg(kani)] mod verif_kani_<name>`, contract attributes are injected in front of the contracted functions, the
`tracing` dependency is redirected to the no-op shim, and `cargo kani` is run once for all selected harnesses.

Harness file header directives:

  //@ target src/utils.rs                       file whose module receives the harness module (child module => private access)
  //@ inject <item>                             start of an attribute-injection block (item syntax as in rsextract.locate)
  //@ | #[cfg_attr(kani, kani::requires(..))]   attribute lines, inserted verbatim before the item
  //@ end
  //@ harness id=<oid> kind=complete|bounded|attempt props=C09,C10 tier=quick|thorough timeout=<s> [bound="N_SEG<=3"]
  //@   [pairs=<verus obligation ids, comma separated>] [text="..."] [expect=fail:<known finding key>]
  #[kani::proof] fn <name>() { .. }             the harness the directive describes (the next `fn` after the directive)
"""
from __future__ import annotations

import json
import os
import re
import shlex
import shutil
import subprocess
import time
from dataclasses import dataclass, field

from rsextract import ExtractError, Source

VERIF = os.path.dirname(os.path.dirname(os.path.abspath(__file__)))
CACHE_TARGET = os.path.join(VERIF, ".cache", "kani-target")


@dataclass
class Harness:
    oid: str
    kind: str          # complete | bounded | attempt
    props: list[str]
    tier: str
    timeout: int
    fn: str
    file: str          # harness file (basename)
    target: str        # repo source file
    modpath: str       # full rust path of the harness
    bound: str = ""
    pairs: list[str] = field(default_factory=list)
    text: str = ""
    expect: str = ""
    solver: str = ""
    contract: bool = False


@dataclass
class HarnessResult:
    harness: Harness
    status: str        # success | failure | timeout | unwind | error | missing
    time_s: float = 0.0
    failed_checks: list = field(default_factory=list)   # [{"description","location","property"}]
    covers: dict = field(default_factory=dict)          # {"satisfied": n, "unsatisfiable": n, "unreachable": n}
    checks_total: int = 0
    raw: str = ""
    playback: str = ""
    stubs: list = field(default_factory=list)
    ignored_float_checks: int = 0


def module_path(target: str) -> str:
    p = target[len("src/"):] if target.startswith("src/") else target
    p = p[:-3] if p.endswith(".rs") else p
    parts = [x for x in p.split("/") if x not in ("mod", "lib")]
    return "::".join(parts)


def parse_harness_file(path: str) -> tuple[str, list[tuple[str, list[str]]], list[Harness], str]:
    txt = open(path).read()
    lines = txt.split("\n")
    target = None
    injects: list[tuple[str, list[str]]] = []
    harnesses: list[Harness] = []
    body: list[str] = []
    name = os.path.splitext(os.path.basename(path))[0]
    i = 0
    pending = None
    while i < len(lines):
        s = lines[i].strip()
        if s.startswith("//@ target"):
            target = s.split(None, 2)[2].strip()
        elif s.startswith("//@ inject"):
            item = s[len("//@ inject"):].strip()
            attrs = []
            i += 1
            while not lines[i].strip().startswith("//@ end"):
                a = lines[i].strip()
                assert a.startswith("//@ |"), f"{path}:{i+1}: bad inject line"
                attrs.append(a[len("//@ |"):].strip())
                i += 1
            injects.append((item, attrs))
        elif s.startswith("//@ harness"):
            spec = s[len("//@ harness"):]
            while i + 1 < len(lines) and lines[i + 1].strip().startswith("//@   "):
                i += 1
                spec += " " + lines[i].strip()[len("//@"):]
            kv = dict((k, v) for k, v in (x.split("=", 1) for x in shlex.split(spec)))
            pending = kv
        else:
            m = re.match(r"\s*(pub\s+)?fn\s+([A-Za-z_0-9]+)\s*\(", lines[i])
            if pending is not None and m:
                kv = pending
                mp = module_path(target)
                full = (mp + "::" if mp else "") + f"verif_kani_{name}::" + m.group(2)
                harnesses.append(Harness(
                    oid=kv["id"], kind=kv.get("kind", "bounded"), props=kv.get("props", "").split(","),
                    tier=kv.get("tier", "quick"), timeout=int(kv.get("timeout", "300")), fn=m.group(2),
                    file=os.path.basename(path), target=target, modpath=full, bound=kv.get("bound", ""),
                    pairs=[x for x in kv.get("pairs", "").split(",") if x], text=kv.get("text", ""),
                    expect=kv.get("expect", ""), solver=kv.get("solver", ""),
                    contract=any("proof_for_contract" in lines[x] for x in range(max(0, i - 4), i))))
                pending = None
            body.append(lines[i])
        i += 1
    if target is None:
        raise ExtractError(f"{path}: missing //@ target")
    return target, injects, harnesses, "\n".join(body)


def all_harnesses() -> list[Harness]:
    out = []
    d = os.path.join(VERIF, "kani")
    for f in sorted(os.listdir(d)):
        if f.endswith(".rs"):
            out += parse_harness_file(os.path.join(d, f))[2]
    return out


def make_snapshot(repo: str, dest: str) -> None:
    """Copy the working tree of the crate (sources + manifests only; no target/, no .git)."""
    os.makedirs(dest, exist_ok=True)
    for name in ("src", "Cargo.toml", "Cargo.lock", "test", "examples", "docs"):
        p = os.path.join(repo, name)
        if os.path.isdir(p):
            shutil.copytree(p, os.path.join(dest, name), symlinks=True)
        elif os.path.exists(p):
            shutil.copy2(p, os.path.join(dest, name))


def prepare_crate(snapshot: str, files: list[str]) -> dict:
    """Inject harness modules + contract attributes into the snapshot; redirect tracing to the shim (S1)."""
    info = {"injected_attrs": [], "modules": [], "substitutions": []}
    cargo = os.path.join(snapshot, "Cargo.toml")
    t = open(cargo).read()
    shim = os.path.join(VERIF, "shims", "tracing")
    t2, n = re.subn(r'(?m)^tracing\s*=\s*"[^"]*"\s*$', f'tracing = {{ path = "{shim}" }}', t)
    if n != 1:
        raise ExtractError("Cargo.toml: anchor lost: `tracing = \"..\"` dependency line not found")
    t2 += "\n[lints.rust]\nunexpected_cfgs = { level = \"allow\", check-cfg = ['cfg(kani)'] }\n" if "[lints" not in t2 else ""
    open(cargo, "w").write(t2)
    info["substitutions"].append("S1: root-crate dependency `tracing` -> /verif/shims/tracing (no-op macros)")
    os.makedirs(os.path.join(snapshot, ".cargo"), exist_ok=True)
    open(os.path.join(snapshot, ".cargo", "config.toml"), "w").write("[net]\noffline = true\n")
    by_target: dict[str, list[str]] = {}
    # `//@ needs <file>`: harness modules whose helpers this file uses
    files = list(files)
    k = 0
    while k < len(files):
        for ln in open(os.path.join(VERIF, "kani", files[k])):
            if ln.startswith("//@ needs "):
                dep = ln.split()[2]
                if dep not in files:
                    files.append(dep)
        k += 1
    for f in files:
        path = os.path.join(VERIF, "kani", f)
        target, injects, harnesses, body = parse_harness_file(path)
        name = os.path.splitext(f)[0]
        tp = os.path.join(snapshot, target)
        if not os.path.exists(tp):
            raise ExtractError(f"anchor lost: {target} does not exist")
        # attribute injection first (positions computed on the pristine text of that file)
        if injects:
            src = Source(target, open(tp).read())
            edits = []
            for item, attrs in injects:
                a, _ = src.locate(item)
                pos = src.toks[a].start
                edits.append((pos, "".join(x + "\n" for x in attrs)))
                info["injected_attrs"].append(f"{target} | {item}: " + " ".join(attrs))
            text = src.text
            for pos, ins in sorted(edits, reverse=True):
                text = text[:pos] + ins + text[pos:]
            open(tp, "w").write(text)
        by_target.setdefault(target, []).append(
            f"\n#[cfg(kani)]\n#[allow(unused, non_snake_case, clippy::all)]\npub(crate) mod verif_kani_{name} {{\n{body}\n}}\n")
        info["modules"].append(f"{target}: mod verif_kani_{name} ({len(harnesses)} harnesses)")
    for target, mods in by_target.items():
        tp = os.path.join(snapshot, target)
        with open(tp, "a") as fh:
            for m in mods:
                fh.write(m)
    info["substitutions"].append("S3: harness modules appended as #[cfg(kani)] child modules; contract attributes inserted as #[cfg_attr(kani, ..)]")
    return info


def run_kani(snapshot: str, harnesses: list[Harness], jobs: int, log_dir: str, extra_timeout: int = 120,
             solver: str | None = None, playback: bool = False, tag: str = "") -> tuple[list[HarnessResult], str, float]:
    """One cargo-kani invocation for all harnesses (shared build); per-harness timeout = max of their timeouts."""
    if not harnesses:
        return [], "", 0.0
    os.makedirs(CACHE_TARGET, exist_ok=True)
    os.makedirs(log_dir, exist_ok=True)
    per = max(h.timeout for h in harnesses)
    cmd = ["cargo", "kani", "-Z", "function-contracts", "-Z", "stubbing", "-Z", "unstable-options",
           "--target-dir", CACHE_TARGET, "--exact", "--harness-timeout", f"{per}s"]
    if playback:
        cmd += ["-Z", "concrete-playback", "--concrete-playback=print", "--output-format", "regular"]
        jobs = 1
    else:
        cmd += ["-j", str(max(1, min(jobs, len(harnesses)))), "--output-format", "terse"]
    if solver:
        cmd += ["--solver", solver]
    for h in harnesses:
        cmd += ["--harness", h.modpath]
    env = dict(os.environ, CARGO_NET_OFFLINE="true", CARGO_TERM_COLOR="never")
    t0 = time.time()
    total_to = per * ((len(harnesses) + jobs - 1) // max(1, jobs)) + extra_timeout + 300
    def _big_stack():
        # CBMC's expression simplifier recurses deeply on large formulas; with the default 8 MiB stack it crashes ("CBMC failed")
        import resource
        try:
            resource.setrlimit(resource.RLIMIT_STACK, (resource.RLIM_INFINITY, resource.RLIM_INFINITY))
        except Exception:
            pass
    # Checks that run at the same time share one cargo target directory (dependency cache): two cargo-kani builds in it clobber
    # each other's artefacts ("error" results, seen when two suites ran concurrently). Serialise the Kani phase across processes.
    import fcntl
    with open(os.path.join(VERIF, ".cache", "kani.lock"), "w") as lk:
        fcntl.flock(lk, fcntl.LOCK_EX)
        t0 = time.time()
        try:
            p = subprocess.run(cmd, cwd=snapshot, capture_output=True, text=True, env=env, timeout=total_to, preexec_fn=_big_stack)
            out = p.stdout + "\n" + p.stderr
        except subprocess.TimeoutExpired as e:
            out = (e.stdout or b"").decode(errors="replace") + "\n" + (e.stderr or b"").decode(errors="replace") + "\nVERIF: global timeout"
        finally:
            fcntl.flock(lk, fcntl.LOCK_UN)
    wall = time.time() - t0
    open(os.path.join(log_dir, f"kani-output{tag}.txt"), "w").write(" ".join(shlex.quote(c) for c in cmd) + "\n\n" + out)
    results = parse_kani_output(out, harnesses)
    return results, " ".join(shlex.quote(c) for c in cmd), wall


_CHK = re.compile(r"Check (\d+): (\S+)\n\s+- Status: (\w+)\n\s+- Description: \"(.*?)\"\n\s+- Location: (.*?)\n", re.S)


def _sections(out: str) -> dict[str, str]:
    """Attribute output text to harnesses. Handles both sequential output and the `Thread N:` prefixed parallel output."""
    sections: dict[str, str] = {}
    cur_seq = None                 # current harness in sequential mode
    cur_thr: dict[str, str] = {}   # thread id -> harness
    owner = None
    for ln in out.split("\n"):
        m = re.match(r"(Thread (\d+): )?Checking harness ([\w:]+)\.\.\.", ln)
        if m:
            if m.group(2) is not None:
                cur_thr[m.group(2)] = m.group(3)
                owner = m.group(3)
            else:
                cur_seq = m.group(3)
                owner = cur_seq
            sections.setdefault(owner, "")
            sections[owner] += ln + "\n"
            continue
        m = re.match(r"Thread (\d+): ?(.*)", ln)
        if m and m.group(1) in cur_thr:
            owner = cur_thr[m.group(1)]
            sections[owner] += m.group(2) + "\n"
            continue
        if ln.startswith("Manual Harness Summary") or ln.startswith("Complete - "):
            owner = None
        if owner is not None:
            sections[owner] += ln + "\n"
    return sections


def parse_kani_output(out: str, harnesses: list[Harness]) -> list[HarnessResult]:
    results = []
    sections = _sections(out)
    for h in harnesses:
        sec = sections.get(h.modpath)
        if sec is None:
            status = "missing"
            if re.search(r"(?m)^error(\[E\d+\])?:", out):
                status = "error"
            results.append(HarnessResult(h, status, raw=out[-6000:] if status == "error" else ""))
            continue
        r = HarnessResult(h, "error", raw=sec)
        m = re.search(r"Verification Time: ([0-9.]+)s", sec)
        if m:
            r.time_s = float(m.group(1))
        m = re.search(r"\*\* (\d+) of (\d+) failed", sec)
        if m:
            r.checks_total = int(m.group(2))
        m = re.search(r"\*\* (\d+) of (\d+) cover properties satisfied", sec)
        if m:
            r.covers = {"satisfied": int(m.group(1)), "total": int(m.group(2))}
        for (_, prop, status, desc, loc) in _CHK.findall(sec):
            if status == "FAILURE":
                r.failed_checks.append({"property": prop, "description": desc, "location": loc.strip()})
        if not r.failed_checks:
            for fm in re.finditer(r"Failed Checks: (.*?)\n\s*File: \"([^\"]*)\", line (\d+), in (\S+)", sec):
                r.failed_checks.append({"property": "", "description": fm.group(1), "location": f"{fm.group(2)}:{fm.group(3)} in {fm.group(4)}"})
        # CBMC's float checks (NaN / float overflow) are not Rust panics: IEEE-754 results are defined behaviour.
        flt = [c for c in r.failed_checks if re.match(r"(NaN on |arithmetic overflow on floating-point)", c["description"])]
        if flt:
            r.failed_checks = [c for c in r.failed_checks if c not in flt]
            r.ignored_float_checks = len(flt)
        r.stubs = re.findall(r"- Stub: (.*)", sec)
        low = sec.lower()
        mfail = re.search(r"\*\* (\d+) of (\d+) failed", sec)
        if "VERIFICATION:- SUCCESSFUL" in sec:
            r.status = "success"
        elif "CBMC timed out" in sec or "timed out" in low:
            r.status = "timeout"
        elif "out of memory" in low or "CBMC failed" in sec or mfail is None:
            r.status = "error"      # tool failure: never a violation
        elif "VERIFICATION:- FAILED" in sec:
            real = [c for c in r.failed_checks if "unwinding assertion" not in c["description"]]
            unwind_failed = any("unwinding assertion" in c["description"] for c in r.failed_checks)
            if unwind_failed and not real:
                # only the unwinding assertion fired: the bound is too small for this code, not a violation (undecided)
                r.status = "unwind"
            elif real:
                # With unwinding assertions on, CBMC cuts every path at the bound with assert(false); assume(false): an ordinary
                # assertion that fails does so on a path INSIDE the bound and is a genuine trace, whether or not some other
                # path also ran into the bound (e.g. a change that makes a loop spin forever on some inputs).
                r.status = "failure"
                r.failed_checks = real
            elif int(mfail.group(1)) > getattr(r, "ignored_float_checks", 0):
                r.status = "failure"
            elif getattr(r, "ignored_float_checks", 0) > 0:
                r.status = "success"     # only CBMC float NaN/overflow checks fired
            else:
                r.status = "error"
        pm = re.search(r"Concrete playback unit test for `[^`]*`:\n```\n(.*?)```", sec, re.S)
        if pm:
            r.playback = pm.group(1)
        results.append(r)
    return results
