#!/usr/bin/env python3
"""Development helper: run the harnesses of kani/<file>.rs (optionally filtered by id substring) against a tree."""
import sys, os, shutil, tempfile, time
sys.path.insert(0, os.path.dirname(os.path.abspath(__file__)))
import kani_unit as ku
args = [a for a in sys.argv[1:] if not a.startswith("--")]
opts = [a for a in sys.argv[1:] if a.startswith("--")]
files = args[0].split(",")
filt = args[1] if len(args) > 1 else ""
tree = next((o.split("=", 1)[1] for o in opts if o.startswith("--tree=")), "/repo")
tier = next((o.split("=", 1)[1] for o in opts if o.startswith("--tier=")), "quick")
d = tempfile.mkdtemp(prefix="verif-devkani-")
try:
    ku.make_snapshot(tree, d)
    ku.prepare_crate(d, [f + ".rs" for f in files])
    hs = [h for h in ku.all_harnesses() if h.file[:-3] in files and filt in h.oid and (tier == "all" or h.tier == tier or "--any" in opts)]
    print("harnesses:", [h.oid for h in hs])
    res, cmd, wall = ku.run_kani(d, hs, 12, "/tmp/devgen/kanilog")
    print("wall %.0fs" % wall)
    for r in res:
        print(f"{r.harness.oid:40s} {r.status:8s} {r.time_s:7.1f}s checks={r.checks_total} covers={r.covers}")
        for c in r.failed_checks[:6]:
            print("     FAILED:", c["description"][:200].replace("\n", " "), "@", c["location"][:100])
        if r.status in ("error", "missing"):
            print(r.raw[-3000:])
    if "--playback" in opts:
        bad = [r.harness for r in res if r.status == "failure" and not r.harness.contract]
        pres, _, _ = ku.run_kani(d, bad, 1, "/tmp/devgen/kanilog", playback=True, tag="-pb")
        for r in pres:
            print(r.harness.oid, r.status); print(r.playback)
finally:
    shutil.rmtree(d, ignore_errors=True)
