"""Warm the Kani cargo target cache (dependencies only change when Cargo.lock does)."""
import os, shutil, subprocess, sys, tempfile
sys.path.insert(0, os.path.dirname(os.path.abspath(__file__)))
import kani_unit as ku
d = tempfile.mkdtemp(prefix="verif-warm-")
try:
    ku.make_snapshot(os.environ.get("VERIF_REPO", "/repo"), d)
    ku.prepare_crate(d, ["seqnr_ops.rs"])
    hs = [h for h in ku.all_harnesses() if h.oid == "seq.k.tolerance_sane"]
    res, cmd, wall = ku.run_kani(d, hs, 1, os.path.join(d, "logs"))
    print("warm:", [(r.harness.oid, r.status) for r in res], f"{wall:.0f}s")
    # verus first-run cache
    open(os.path.join(d, "w.rs"), "w").write("use vstd::prelude::*;\nverus!{ proof fn w() ensures 1 + 1 == 2int {} }\nfn main(){}\n")
    subprocess.run(["verus", os.path.join(d, "w.rs")], capture_output=True, timeout=300)
finally:
    shutil.rmtree(d, ignore_errors=True)
