"""Verus units: template expansion (mechanical extraction of the real functions + contract splicing),
verifier invocation, and mapping of diagnostics back to obligation ids.

Template language (lines starting with `//@` inside /verif/contracts/<unit>.vrs):

  //@ unit <name>
  //@ extract <file> | <item>            start of an extraction block (item syntax: see rsextract.Source.locate)
  //@ | props C01 C14                     properties served by this function's obligations
  //@ | requires <clause>
  //@ | ensures <id> : <clause>           one obligation per ensures clause
  //@ | ensures[C14] <id> : <clause>      per-clause property override
  //@ | prologue <text>                   the only text inserted inside a body (one line at body start)
  //@ | loop <n> invariant <id> : <clause>
  //@ | loop <n> decreases <expr>
  //@ | rename <new fn name>
  //@ | result <name>                     name of the result binder (default r)
  //@ | attr <text>                       attribute line put before the fn
  //@ | raw                               no contract; item copied after drop rules (struct/enum/const/impl/macro)
  //@ | fragment <kind> <ordinal>         only the ordinal-th `kind` statement of the fn body, verbatim
  //@ | subst <from> => <to>              textual substitution applied to the extracted text (listed in evidence); anchor lost if absent
  //@ | substopt <from> => <to>           same, but applied only if <from> occurs (listed in evidence when applied)
  //@ | substws <from> => <to>            same as subst, <from> matched modulo whitespace (multi-line constructs); substwsopt = optional
  //@ | fragment span A ~~ B / closure N / tail M / let NAME / letclosure NAME   further fragment kinds, see rsextract.fragment
  //@ | novac                             do not generate the requires-satisfiability probe for this fn
  //@ | +<text>                           continuation of the previous clause
  //@ end
  //@ obligation <id> [C09 ...]           tags the next template `proof fn` as an obligation of those properties
  //@ canary <text>                       extra text put into the body of the must-fail canary (e.g. `broadcast use g;`)
"""
from __future__ import annotations

import json
import os
import re
import subprocess
import time
from dataclasses import dataclass, field

from rsextract import Contract, ExtractError, Source, apply_drop_rules, fragment, splice_contract, split_or_guard_arms

DEFINITE = (
    "postcondition not satisfied",
    "precondition not satisfied",
    "assertion failed",
    "possible arithmetic underflow/overflow",
    "invariant not satisfied",
    "possible division by zero",
    "decreases not satisfied",
    "unreachable",
    "index out of bounds",
    "recommendation not met",
    "possible bit shift underflow/overflow",
)


@dataclass
class FnInfo:
    name: str              # rust fn name in the generated file
    qual: str              # "file | item"
    props: list[str]
    line_lo: int = 0
    line_hi: int = 0
    safety_id: str = ""
    contracted: bool = True


@dataclass
class Obligation:
    oid: str
    props: list[str]
    kind: str              # ensures | invariant | safety | lemma
    text: str
    fn: str
    src: str
    line: int = 0


@dataclass
class Generated:
    unit: str
    main_text: str
    vac_text: str
    obligations: list[Obligation]
    fns: list[FnInfo]
    fired_rules: list[str]
    substitutions: list[str]
    assumptions: list[str]
    vac_fns: list[str]
    line_to_oid: dict[int, str] = field(default_factory=dict)
    blocks: list = field(default_factory=list)      # (block key, first line, last line) of every extracted block in main_text
    excluded: list = field(default_factory=list)    # (block key, reason, [obligation ids], [props]) - blocks left out of this generation


def _parse_block(lines: list[str]):
    d = {"props": [], "requires": [], "ensures": [], "prologue": None, "loops": {}, "rename": None, "result": "r",
         "attrs": [], "raw": False, "fragment": None, "subst": [], "novac": False, "safety": True, "opens": False, "oblig": None, "keepvis": False, "constensures": []}
    last = None
    for ln in lines:
        body = ln.strip()
        if body.startswith("+"):
            if last is None:
                raise ExtractError("continuation without clause")
            kind, idx = last
            extra = " " + body[1:].strip()
            if kind == "requires":
                d["requires"][idx] += extra
            elif kind == "ensures":
                o, p, t = d["ensures"][idx]
                d["ensures"][idx] = (o, p, t + extra)
            elif kind == "inv":
                n, i = idx
                o, p, t = d["loops"][n]["invariant"][i]
                d["loops"][n]["invariant"][i] = (o, p, t + extra)
            continue
        word, _, rest = body.partition(" ")
        rest = rest.strip()
        m = re.fullmatch(r"ensures(\[([^\]]*)\])?", word)
        if word == "props":
            d["props"] = rest.split()
        elif word == "requires":
            d["requires"].append(rest)
            last = ("requires", len(d["requires"]) - 1)
        elif m:
            oid, _, clause = rest.partition(":")
            props = m.group(2).replace(",", " ").split() if m.group(2) else None
            d["ensures"].append((oid.strip(), props, clause.strip()))
            last = ("ensures", len(d["ensures"]) - 1)
        elif word == "prologue":
            d["prologue"] = rest
        elif word == "loop":
            n, what, tail = rest.split(" ", 2)
            n = int(n)
            lp = d["loops"].setdefault(n, {"invariant": [], "decreases": None})
            if what == "invariant":
                oid, _, clause = tail.partition(":")
                lp["invariant"].append((oid.strip(), None, clause.strip()))
                last = ("inv", (n, len(lp["invariant"]) - 1))
            elif what == "decreases":
                lp["decreases"] = tail
            else:
                raise ExtractError(f"bad loop directive: {body}")
        elif word == "rename":
            d["rename"] = rest
        elif word == "result":
            d["result"] = rest
        elif word == "attr":
            d["attrs"].append(rest)
        elif word == "raw":
            d["raw"] = True
        elif word == "fragment":
            k, o = rest.split(None, 1)
            d["fragment"] = (k, int(o) if o.isdigit() else o)
        elif word == "subst":
            a, _, b = rest.partition("=>")
            d["subst"].append((a.strip(), b.strip()))
        elif word == "substopt":
            # like subst, but the source text may be absent (a rewrite that is only needed when the construct occurs)
            a, _, b = rest.partition("=>")
            d["subst"].append(("\x00op" + a.strip(), b.strip()))
        elif word == "substwsopt":
            a, _, b = rest.partition("=>")
            d["subst"].append(("\x00wo" + a.strip(), b.strip()))
        elif word == "substws":
            # like subst, but the source text is matched modulo whitespace (for constructs that span several source lines)
            a, _, b = rest.partition("=>")
            d["subst"].append(("\x00ws" + a.strip(), b.strip()))
        elif word == "novac":
            d["novac"] = True
        elif word == "nosafety":
            d["safety"] = False
        elif word == "keepvis":
            d["keepvis"] = True
        elif word == "splitarms":
            d["splitarms"] = True
        elif word in ("wrapper", "wrapper_pre", "wrapper_post"):
            d[word] = (d.get(word, "") + "\n" + rest).strip() if word != "wrapper" else rest
        elif word == "constensures":
            oid, _, clause = rest.partition(":")
            d["constensures"].append((oid.strip(), clause.strip()))
        elif word == "oblig":
            head, _, txt = rest.partition(":")
            hp = head.split()
            d["oblig"] = (hp[0], hp[1:], txt.strip())
        else:
            raise ExtractError(f"unknown directive: {body}")
    return d


def _fn_name(text: str) -> str:
    m = re.search(r"\bfn\s+([A-Za-z_][A-Za-z0-9_]*)", text)
    if not m:
        raise ExtractError("no fn name")
    return m.group(1)


def _vac_probe(fn_text_with_contract: str, name: str, requires: list[str], in_impl: bool) -> str | None:
    """Generate `proof fn verif_vac_<name>(params) requires R ensures false {}`; it must NOT verify."""
    src = Source("<gen>", fn_text_with_contract)
    toks = src.toks
    fnk = next(k for k in src.sig if toks[k].kind == "ident" and toks[k].text == "fn")
    k = src.next_sig(src.next_sig(fnk))
    generics = ""
    if toks[k].text == "<":
        g0 = k
        depth = 0
        while True:
            if toks[k].text == "<":
                depth += 1
            elif toks[k].text == ">" and not (k > 0 and toks[k - 1].text == "-" and toks[k - 1].end == toks[k].start):   # not the `->` of an Fn bound
                depth -= 1
                if depth == 0:
                    break
            k = src.next_sig(k)
        generics = src.text[toks[g0].start:toks[k].end]
        k = src.next_sig(k)
    close = src.match[k]
    params_txt = src.text[toks[k].end:toks[close].start]
    # split at depth-0 commas
    parts, depth, cur = [], 0, ""
    for ch in params_txt:
        if ch in "([{<":
            depth += 1
        elif ch in ")]}>":
            depth -= 1
        if ch == "," and depth == 0:
            parts.append(cur)
            cur = ""
        else:
            cur += ch
    if cur.strip():
        parts.append(cur)
    new_params, reqs = [], list(requires)
    for p in parts:
        p = re.sub(r"'[a-z_]+\s*", "", p.strip())  # strip lifetimes
        if re.fullmatch(r"(&\s*)?(mut\s+)?self", p) or re.fullmatch(r"&\s*mut\s+self", p):
            new_params.append("self_: Self")
            reqs = [re.sub(r"old\(\s*self\s*\)", "self_", r) for r in reqs]
            reqs = [re.sub(r"\bself\b", "self_", r) for r in reqs]
            continue
        m = re.fullmatch(r"(mut\s+)?([A-Za-z_][A-Za-z0-9_]*)\s*:\s*(.+)", p, re.S)
        if not m:
            return None
        nm, ty = m.group(2), m.group(3).strip()
        mm = re.fullmatch(r"&\s*mut\s+(.+)", ty, re.S)
        if mm:
            ty = mm.group(1)
            reqs = [re.sub(r"old\(\s*" + nm + r"\s*\)", nm, r) for r in reqs]
            reqs = [re.sub(r"\*\s*" + nm + r"\b", nm, r) for r in reqs]
        if "impl " in ty or "dyn " in ty:
            return None
        if ty.lstrip().startswith("["):      # `&mut [T]`: an unsized slice cannot be taken by value; a shared slice has the same view
            ty = "&" + ty
        new_params.append(f"{nm}: {ty}")
    generics = re.sub(r"'[a-z_]+\s*,?\s*", "", generics)
    if generics.replace(" ", "") == "<>":
        generics = ""
    body = f"proof fn verif_vac_{name}{generics}({', '.join(new_params)})\n    requires\n"
    for r in reqs:
        body += f"        {r},\n"
    body += "    ensures false,\n{\n}\n"
    return body


def generate(template_path: str, snapshot: str, exclude: dict | None = None) -> Generated:
    """exclude: {block key: reason} - extraction blocks to leave out (isolation of a block that cannot be read any more, so that the
    rest of the unit is still decided; the left-out block's obligations are reported as undecided)."""
    exclude = exclude or {}
    blocks: list = []
    excluded: list = []
    unit = os.path.splitext(os.path.basename(template_path))[0]
    tl = open(template_path).read().split("\n")
    out_main: list[str] = []
    out_vac: list[str] = []
    obligations: list[Obligation] = []
    fns: list[FnInfo] = []
    fired: set[str] = set()
    substs: list[str] = []
    vac_fns: list[str] = []
    line_to_oid: dict[int, str] = {}
    sources: dict[str, Source] = {}
    canary_extra = ""
    pending_oblig = None
    impl_depth_hint = 0
    i = 0

    def cur_line() -> int:
        return sum(s.count("\n") + 1 for s in out_main) + 1

    def _emit_block(d, file, item, ln):
        if file not in sources:
            p = os.path.join(snapshot, file)
            if not os.path.exists(p):
                raise ExtractError(f"anchor lost: {file} does not exist")
            sources[file] = Source(file, open(p).read())
        src = sources[file]
        a, b = src.locate(item)
        text = src.text_of(a, b)
        text, f = apply_drop_rules(text, file, keep_vis=d["keepvis"])
        fired.update(f)
        if d["fragment"]:
            text = fragment(text, file, *d["fragment"])
        if d.get("splitarms"):
            text, nsp = split_or_guard_arms(text, file)
            fired.add(f"R7 ({nsp} or-pattern+guard arms split)")
        if d["fragment"]:
            if d.get("wrapper"):
                # the fragment becomes the body of a generated wrapper fn whose parameters are the fragment's free locals;
                # only the wrapper's signature, local initialisation and result expression come from the template
                text = (d["wrapper"] + " {\n        " + d.get("wrapper_pre", "") + "\n        " + text + "\n        "
                        + d.get("wrapper_post", "") + "\n    }")
                d["fragment"] = None
        for (x, y) in d["subst"]:
            if x.startswith("\x00wo"):
                x = x[3:]
                rx = r"\s*".join(re.escape(tk) for tk in x.split())
                if re.search(rx, text):
                    text = re.sub(rx, lambda _m: y, text)
                    substs.append(f"{file} | {item}: `{x}` (modulo whitespace) => `{y}`")
                continue
            if x.startswith("\x00ws"):
                x = x[3:]
                rx = r"\s*".join(re.escape(tk) for tk in x.split())
                if not re.search(rx, text):
                    raise ExtractError(f"{file} | {item}: anchor lost: substitution source `{x}` not present (modulo whitespace)")
                text = re.sub(rx, lambda _m: y, text)
                substs.append(f"{file} | {item}: `{x}` (modulo whitespace) => `{y}`")
                continue
            if x.startswith("\x00op"):
                x = x[3:]
                if x in text:
                    text = text.replace(x, y)
                    substs.append(f"{file} | {item}: `{x}` => `{y}`")
                continue
            if x not in text:
                raise ExtractError(f"{file} | {item}: anchor lost: substitution source `{x}` not present")
            text = text.replace(x, y)
            substs.append(f"{file} | {item}: `{x}` => `{y}`")
        indent = re.match(r"\s*", ln).group(0)
        if d["constensures"]:
            # R4 for constants: `const N: T = E;` -> `exec const N: T ensures <clauses> { E }`
            m = re.search(r"\bconst\s+([A-Za-z_0-9]+)\s*:\s*(.*?)\s*=\s*(.*);\s*$", text, re.S)
            if not m:
                raise ExtractError(f"{file} | {item}: anchor lost: not a `const N: T = E;` item")
            vis = "pub " if re.match(r"\s*pub\b", text) else ""
            cname = m.group(1)
            base = cur_line()
            hdr = f"{vis}exec const {cname}: {m.group(2)}\n    ensures\n"
            lines_ = hdr
            info = FnInfo(name=cname, qual=f"{file} | {item}", props=d["props"], line_lo=base, line_hi=0,
                          safety_id=f"{unit}.{cname}.safety")
            init = m.group(3)
            arg = init[init.find("(") + 1:init.rfind(")")] if "(" in init else init
            d["constensures"] = [(o, c.replace("$ARG", "(" + arg + ")")) for (o, c) in d["constensures"]]
            for oid, clause in d["constensures"]:
                line_to_oid[base + lines_.count("\n")] = oid
                obligations.append(Obligation(oid, d["props"], "ensures", clause, cname, info.qual, base + lines_.count("\n")))
                lines_ += f"        {clause},\n"
            lines_ += "{ " + m.group(3) + " }"
            info.line_hi = base + lines_.count("\n")
            fns.append(info)
            block_txt = "\n".join(indent + t if t.strip() else t for t in lines_.split("\n"))
            out_main.append(block_txt)
            out_vac.append(block_txt)
            return
        if d["raw"] or d["fragment"]:
            rendered = text
            block_txt = "\n".join(indent + t if t.strip() else t for t in rendered.split("\n"))
            if d["oblig"]:
                oid, oprops, otxt = d["oblig"]
                base = cur_line()
                nm = item.replace(" ", "_")
                info = FnInfo(name=nm, qual=f"{file} | {item}", props=oprops, line_lo=base,
                              line_hi=base + block_txt.count("\n"), safety_id=oid)
                fns.append(info)
                obligations.append(Obligation(oid, oprops, "impl", otxt, nm, info.qual, base))
            out_main.append(block_txt)
            out_vac.append(block_txt)
            return
        props = d["props"]
        name = d["rename"] or _fn_name(text)
        c = Contract(requires=d["requires"], ensures=[(o, t) for (o, _, t) in d["ensures"]], prologue=d["prologue"],
                     loops={n: {"invariant": [(o, t) for (o, _, t) in lp["invariant"]], "decreases": lp["decreases"]}
                            for n, lp in d["loops"].items()},
                     rename=d["rename"], result=d["result"], attrs=d["attrs"])
        r = splice_contract(text, file, c)
        base = cur_line()
        block_txt = "\n".join(indent + t if t.strip() else t for t in r.text.split("\n"))
        nlines = block_txt.count("\n") + 1
        info = FnInfo(name=name, qual=f"{file} | {item}", props=props, line_lo=base, line_hi=base + nlines - 1)
        prop_of = {o: (p if p is not None else props) for (o, p, _) in d["ensures"]}
        txt_of = {o: t for (o, _, t) in d["ensures"]}
        for n, lp in d["loops"].items():
            for (o, p, t) in lp["invariant"]:
                prop_of[o] = props
                txt_of[o] = f"loop#{n} invariant: {t}"
        for rel, oid in r.line_ids:
            line_to_oid[base + rel] = oid
            obligations.append(Obligation(oid, prop_of[oid], "invariant" if txt_of[oid].startswith("loop#") else "ensures",
                                          txt_of[oid], name, info.qual, base + rel))
        if d["safety"]:
            info.safety_id = f"{unit}.{name}.safety"
            obligations.append(Obligation(info.safety_id, props, "safety",
                                          "no panic: arithmetic overflow, index bounds, unwrap, callee preconditions, termination of annotated loops",
                                          name, info.qual, base))
        fns.append(info)
        out_main.append(block_txt)
        # vac variant: body not re-verified
        out_vac.append(indent + "#[verifier::external_body]\n" + block_txt)
        if d["requires"] and not d["novac"]:
            probe = _vac_probe(r.text, name, d["requires"], True)
            if probe is None:
                raise ExtractError(f"{file} | {item}: cannot build requires-satisfiability probe; add `novac` with a reason")
            out_vac.append("\n".join(indent + t if t.strip() else t for t in probe.split("\n")))
            vac_fns.append(f"verif_vac_{name}")
        return

    while i < len(tl):
        ln = tl[i]
        s = ln.strip()
        if s.startswith("//@ unit"):
            i += 1
            continue
        if s.startswith("//@ include"):
            inc = open(os.path.join(os.path.dirname(template_path), s.split()[2])).read().split("\n")
            tl[i:i + 1] = inc
            continue
        if s.startswith("//@ canary"):
            canary_extra += " " + s[len("//@ canary"):].strip()
            i += 1
            continue
        if s.startswith("//@ obligation"):
            parts = s[len("//@ obligation"):].split()
            pending_oblig = (parts[0], parts[1:])
            i += 1
            continue
        if s.startswith("//@ extract"):
            spec = s[len("//@ extract"):].strip()
            file, _, item = spec.partition("|")
            file, item = file.strip(), item.strip()
            block = []
            i += 1
            while i < len(tl) and not tl[i].strip().startswith("//@ end"):
                b = tl[i].strip()
                if not b.startswith("//@ |"):
                    raise ExtractError(f"{template_path}:{i+1}: expected `//@ |` line inside extract block")
                block.append(b[len("//@ |"):])
                i += 1
            i += 1
            d = _parse_block(block)
            bkey = f"{file} | {item}" + (f" | fragment {d['fragment'][0]} {d['fragment'][1]}" if d["fragment"] else "")
            b_oids = [o for (o, _, _) in d["ensures"]] + [o for lp in d["loops"].values() for (o, _, _) in lp["invariant"]] \
                + [o for (o, _) in d["constensures"]] + ([d["oblig"][0]] if d["oblig"] else [])
            b_props = sorted(set(d["props"]) | {pp for (_, p2, _) in d["ensures"] if p2 for pp in p2} | (set(d["oblig"][1]) if d["oblig"] else set()))
            if bkey in exclude:
                excluded.append((bkey, exclude[bkey], b_oids, b_props))
                continue
            blk_line0 = cur_line()
            marks = (len(out_main), len(out_vac), len(obligations), len(fns), len(vac_fns), dict(line_to_oid))
            try:
                _emit_block(d, file, item, ln)
            except ExtractError as e:
                if d["raw"] and not d["oblig"] and not d["fragment"]:
                    raise           # a type/const declaration the rest of the unit depends on: cannot isolate
                del out_main[marks[0]:], out_vac[marks[1]:], obligations[marks[2]:], fns[marks[3]:], vac_fns[marks[4]:]
                line_to_oid.clear()
                line_to_oid.update(marks[5])
                excluded.append((bkey, f"extraction: {e}", b_oids, b_props))
                continue
            if not (d["raw"] and not d["oblig"] and not d["fragment"]) or d.get("wrapper"):
                blocks.append((bkey, blk_line0, cur_line() - 1))      # type/const declarations are never candidates for isolation
            continue
        # ordinary template line
        if pending_oblig and re.search(r"\bfn\s+([A-Za-z_0-9]+)", s):
            nm = re.search(r"\bfn\s+([A-Za-z_0-9]+)", s).group(1)
            # find end of this proof fn in the template (brace matching from here)
            j, depth, seen = i, 0, False
            while j < len(tl):
                for ch in re.sub(r"//.*", "", tl[j]):
                    if ch == "{":
                        depth += 1
                        seen = True
                    elif ch == "}":
                        depth -= 1
                if seen and depth == 0:
                    break
                j += 1
            base = cur_line()
            oid, props = pending_oblig
            info = FnInfo(name=nm, qual=f"{os.path.basename(template_path)} | proof fn {nm}", props=props,
                          line_lo=base, line_hi=base + (j - i), safety_id=oid, contracted=False)
            fns.append(info)
            obligations.append(Obligation(oid, props, "lemma", " ".join(x.strip() for x in tl[i:j + 1])[:400], nm, info.qual, base))
            pending_oblig = None
        out_main.append(ln)
        out_vac.append(ln)
        i += 1

    main_text = "\n".join(out_main)
    vac_text = "\n".join(out_vac)
    # canary goes inside the last verus! block of the vac file
    canary = "\nproof fn verif_canary_must_fail()\n    ensures false,\n{\n    " + canary_extra + "\n}\n"
    idx = vac_text.rfind("} // verus!")
    if idx < 0:
        raise ExtractError(f"{template_path}: missing `}} // verus!` terminator")
    vac_text = vac_text[:idx] + canary + vac_text[idx:]
    vac_fns.append("verif_canary_must_fail")
    assumptions = scan_assumptions(main_text)
    return Generated(unit, main_text, vac_text, obligations, fns, sorted(fired), substs, assumptions, vac_fns, line_to_oid,
                     blocks, excluded)


def scan_assumptions(text: str) -> list[str]:
    """Mechanical scan for every trusted declaration in a generated Verus file."""
    out = []
    lines = text.split("\n")
    for k, ln in enumerate(lines):
        s = ln.strip()
        if s.startswith("//"):
            continue
        for pat in ("external_body", "assume_specification", "external_type_specification", "external_fn_specification",
                    "assume(", "admit(", "#[verifier::external", "axiom "):
            if pat in s:
                # name the following item
                ctx = ""
                for j in range(k, min(k + 6, len(lines))):
                    m = re.search(r"\b(fn|struct|enum|const|type)\s+([A-Za-z_0-9]+)", lines[j])
                    if m:
                        ctx = m.group(0)
                        break
                    m = re.search(r"assume_specification.*?\[\s*([^\]]+)\]", lines[j])
                    if m:
                        ctx = m.group(1).strip()
                        break
                out.append(f"{pat.strip('(# [')}: {ctx or s[:80]}")
                break
    return sorted(set(out))


@dataclass
class VerusResult:
    ok: bool                       # tool ran and produced parseable output
    reason: str
    verified: int = 0
    errors: int = 0
    fn_results: dict = field(default_factory=dict)   # fn short name -> {"success": bool, "time_us": int, "rlimit": int}
    diags: list = field(default_factory=list)        # {"message","line","rendered"}
    wall_s: float = 0.0
    smt_ms: int = 0
    raw_err: str = ""
    cmd: str = ""


def run_verus(path: str, rlimit: float | None = None, timeout: int = 600, extra: list[str] | None = None) -> VerusResult:
    cmd = ["verus", path, "--output-json", "--time", "--multiple-errors", "50", "--error-format=json"]
    if rlimit is not None:
        cmd += ["--rlimit", str(rlimit)]
    cmd += extra or []
    t0 = time.time()
    try:
        p = subprocess.run(cmd, capture_output=True, text=True, timeout=timeout, cwd=os.path.dirname(path))
    except subprocess.TimeoutExpired:
        return VerusResult(False, f"verus timeout after {timeout}s", wall_s=time.time() - t0, cmd=" ".join(cmd))
    wall = time.time() - t0
    res = VerusResult(True, "", wall_s=wall, raw_err=p.stderr, cmd=" ".join(cmd))
    try:
        j = json.loads(p.stdout)
    except Exception:
        return VerusResult(False, "verus produced no JSON: " + (p.stderr[-2000:] or p.stdout[-2000:]), wall_s=wall, raw_err=p.stderr, cmd=" ".join(cmd))
    vr = j.get("verification-results", {})
    res.verified = vr.get("verified", 0)
    res.errors = vr.get("errors", 0)
    if vr.get("encountered-vir-error"):
        res.ok = False
        res.reason = "verus front-end (VIR) error"
    try:
        smt = j["times-ms"]["smt"]
        res.smt_ms = smt.get("total", 0)
        for m in smt.get("smt-run-module-times", []):
            for fb in m.get("function-breakdown", []):
                short = fb["function"].split("::")[-1]
                key = fb["function"]
                res.fn_results.setdefault(short, []).append({"function": key, "success": fb.get("success", False),
                                                             "time_us": fb.get("time-micros", 0), "rlimit": fb.get("rlimit", 0),
                                                             "mode": fb.get("mode:", "")})
    except KeyError:
        pass
    for ln in p.stderr.split("\n"):
        ln = ln.strip()
        if not ln.startswith("{"):
            continue
        try:
            dj = json.loads(ln)
        except Exception:
            continue
        if dj.get("level") not in ("error",):
            continue
        msg = dj.get("message", "")
        if msg.startswith("aborting due to"):
            continue
        prim = [sp for sp in dj.get("spans", []) if sp.get("is_primary")]
        allsp = dj.get("spans", [])
        res.diags.append({"message": msg, "line": prim[0]["line_start"] if prim else None,
                          "lines": [sp["line_start"] for sp in allsp], "rendered": dj.get("rendered", "")})
    if not vr and not res.diags:
        res.ok = False
        res.reason = "no verification results"
    # compile errors (not verification failures) => tooling
    for d in res.diags:
        m = d["message"]
        if not any(m.startswith(x) for x in DEFINITE) and "rlimit" not in m and "resource limit" not in m and "loop invariant" not in m:
            res.ok = False
            res.reason = "verus rejected the generated file: " + m
    return res
