"""check driver: decides one property on /repo's current working tree.

exit 0  every registered obligation of the property discharged (known findings are printed as KNOWN-FINDING)
exit 1  at least one violation not listed in known_findings.txt; one `VIOLATION property=<id> replay=<path>` line each
exit 2  undecided / tooling problem (never on the unchanged tree)
"""
from __future__ import annotations

import argparse
import concurrent.futures as cf
import hashlib
import json
import os
import re
import shutil
import subprocess
import sys
import tempfile
import time

HERE = os.path.dirname(os.path.abspath(__file__))
VERIF = os.path.dirname(HERE)
sys.path.insert(0, HERE)

import kani_unit as ku  # noqa: E402
import verus_unit as vu  # noqa: E402
from rsextract import ExtractError  # noqa: E402

REPO = os.environ.get("VERIF_REPO", "/repo")
KNOWN = os.path.join(VERIF, "known_findings.txt")
# evidence/ and replays/ normally live in /verif; the self-test redirects them so that it never touches committed evidence
OUT = os.environ.get("VERIF_OUT", VERIF)


def load_meta():
    return json.load(open(os.path.join(VERIF, "contracts", "properties_meta.json")))


def verus_units_for(prop: str) -> list[str]:
    """A unit declares the properties it serves in its header line: `//@ unit <name> props=C01,C14`."""
    out = []
    d = os.path.join(VERIF, "contracts")
    for f in sorted(os.listdir(d)):
        if not f.endswith(".vrs"):
            continue
        first = open(os.path.join(d, f)).readline()
        m = re.match(r"//@ unit \S+\s+props=(\S+)", first)
        if m and prop in m.group(1).split(","):
            out.append(f)
    return out


def load_known() -> tuple[list[dict], list[str]]:
    findings, fixed = [], []
    if os.path.exists(KNOWN):
        for ln in open(KNOWN):
            ln = ln.strip()
            if not ln or ln.startswith("#"):
                continue
            if ln.startswith("fixed:"):
                fixed.append(ln)
                continue
            if ln.startswith("finding:"):
                kv = dict(re.findall(r"(\w+)=(\S+)", ln.split("::")[0]))
                kv["what"] = ln.split("::", 1)[1].strip() if "::" in ln else ""
                findings.append(kv)
    return findings, fixed


def sha(path: str) -> str:
    try:
        return hashlib.sha256(open(path, "rb").read()).hexdigest()[:16]
    except OSError:
        return "missing"


class Run:
    def __init__(self, prop: str, tier: str, jobs: int, keep: bool, seed: int):
        self.prop, self.tier, self.jobs, self.keep, self.seed = prop, tier, jobs, keep, seed
        self.scratch = tempfile.mkdtemp(prefix=f"verif-{prop}-")
        self.snap = os.path.join(self.scratch, "snap")
        self.logs = os.path.join(self.scratch, "logs")
        os.makedirs(self.logs)
        self.violations: list[dict] = []
        self.undecided: list[str] = []
        self.known_hits: list[dict] = []
        self.oblig_rows: list[dict] = []
        self.bounded_rows: list[dict] = []
        self.attempt_rows: list[dict] = []
        self.assumptions: set[str] = set()
        self.fns_under_contract: list[str] = []
        self.cmds: list[str] = []
        self.solver_ms: dict[str, float] = {}
        self.verus_verified = 0
        self.vacuity_probes = 0
        self.covers = 0

    # ------------------------------------------------------------------------------------------
    def verus_unit(self, tmpl: str) -> dict:
        """Generate + verify one unit. If Verus REJECTS the generated file (a compile-level error, e.g. an extracted fragment now
        refers to a local the wrapper does not declare) the offending extraction block is left out and the rest of the unit is
        still decided; the left-out block's obligations are reported as undecided (exit 2) for the properties they serve only."""
        unit = tmpl[:-4]
        out = {"unit": unit, "ok": False, "reason": "", "gen": None, "main": None, "vac": None}
        exclude: dict = {}
        d = os.path.join(self.scratch, "verus", unit)
        os.makedirs(d, exist_ok=True)
        mp, vp = os.path.join(d, unit + ".rs"), os.path.join(d, unit + "_vac.rs")
        for attempt in range(8):
            try:
                g = vu.generate(os.path.join(VERIF, "contracts", tmpl), self.snap, exclude)
            except ExtractError as e:
                out["reason"] = f"extraction: {e}"
                return out
            open(mp, "w").write(g.main_text)
            main = vu.run_verus(mp, None, 900)
            if main.ok or not main.diags:
                break
            # rejected: which extraction blocks do the rejecting diagnostics point into?
            bad = {}
            for dg in main.diags:
                if any(dg["message"].startswith(x) for x in vu.DEFINITE) or "rlimit" in dg["message"]:
                    continue
                for (bkey, lo, hi) in g.blocks:
                    if dg["line"] and lo <= dg["line"] <= hi:      # primary span only
                        bad[bkey] = "verus cannot read this block any more: " + dg["message"][:200]
            if not bad or all(k in exclude for k in bad):
                break
            exclude.update(bad)
        open(vp, "w").write(g.vac_text)
        out["main"], out["vac"] = main, vu.run_verus(vp, 2, 300)
        out["gen"] = g
        out["ok"] = True
        return out

    # ------------------------------------------------------------------------------------------
    def run(self) -> int:
        t0 = time.time()
        prop = self.prop
        try:
            ku.make_snapshot(REPO, self.snap)
        except Exception as e:  # noqa: BLE001
            self.undecided.append(f"snapshot failed: {e}")
            return self.finish(t0)
        units = verus_units_for(prop)
        tiers = ("quick",) if self.tier == "quick" else ("quick", "thorough")
        harnesses = [h for h in ku.all_harnesses() if prop in h.props and h.tier in tiers]
        kani_files = sorted({h.file for h in harnesses})
        kani_snap = os.path.join(self.scratch, "kani-crate")
        kinfo = None
        if harnesses:
            shutil.copytree(self.snap, kani_snap)
            try:
                kinfo = ku.prepare_crate(kani_snap, kani_files)
            except ExtractError as e:
                self.undecided.append(f"kani injection: {e}")
                harnesses = []
        vjobs = max(1, min(len(units), 6))
        kjobs = max(1, self.jobs - 2 * vjobs) if units else self.jobs
        with cf.ThreadPoolExecutor(vjobs + 1) as ex:
            vf = [ex.submit(self.verus_unit, u) for u in units]
            kf = ex.submit(ku.run_kani, kani_snap, harnesses, kjobs, self.logs) if harnesses else None
            vres = [f.result() for f in vf]
            kres, kcmd, kwall = kf.result() if kf else ([], "", 0.0)
        if kcmd:
            self.cmds.append(kcmd)
        if kinfo:
            for s in kinfo["substitutions"]:
                self.assumptions.add(s)
            for s in kinfo["injected_attrs"]:
                self.assumptions.add("kani contract attribute injected (snapshot only): " + s[:300])
        kani_by_oid = {r.harness.oid: r for r in kres}
        # ---- Verus verdicts ------------------------------------------------------------------
        verus_failed: dict[str, dict] = {}
        seen_oids: set[str] = set()
        for vr in vres:
            unit = vr["unit"]
            if not vr["ok"]:
                self.undecided.append(f"verus unit {unit}: {vr['reason']}")
                continue
            g, main, vac = vr["gen"], vr["main"], vr["vac"]
            self.cmds.append(main.cmd.replace(self.scratch, "$SCRATCH"))
            for (bkey, reason, oids, bprops) in g.excluded:
                if prop in bprops:
                    self.undecided.append(f"verus unit {unit}: block `{bkey}` left out ({reason}); obligations not decided: {', '.join(oids[:6])}")
                    for oid in oids:
                        self.oblig_rows.append({"id": oid, "backend": "verus", "kind": "ensures", "function": bkey, "clause": "(block could not be read)", "status": "undecided"})
            for a in g.assumptions:
                self.assumptions.add(f"[{unit}] {a}")
            for r in g.fired_rules:
                self.assumptions.add(f"[{unit}] drop rule {r} fired")
            for s in g.substitutions:
                self.assumptions.add(f"[{unit}] substitution: {s}")
            if not main.ok:
                self.undecided.append(f"verus unit {unit}: {main.reason}")
                open(os.path.join(self.logs, f"verus-{unit}.stderr"), "w").write(main.raw_err)
                continue
            self.verus_verified += main.verified
            self.solver_ms[f"verus:{unit}"] = main.smt_ms
            failed_oids: dict[str, list] = {}
            preamble_fail = []
            for dg in main.diags:
                msg = dg["message"]
                oid = None
                if dg["line"] in g.line_to_oid:
                    oid = g.line_to_oid[dg["line"]]
                else:
                    for ln in dg["lines"]:
                        if ln in g.line_to_oid and ("postcondition" in msg or "invariant" in msg):
                            oid = g.line_to_oid[ln]
                            break
                if oid is None:
                    for f in g.fns:
                        if any(f.line_lo <= ln <= f.line_hi for ln in dg["lines"] if ln):
                            oid = f.safety_id or None
                            break
                definite = any(msg.startswith(x) for x in vu.DEFINITE) or "invariant" in msg
                if oid is None:
                    preamble_fail.append(msg + " @ line " + str(dg["line"]))
                    continue
                failed_oids.setdefault(oid, []).append({"definite": definite, "message": msg, "rendered": dg["rendered"]})
            if preamble_fail:
                self.undecided.append(f"verus unit {unit}: failure outside any obligation (proof brittleness?): " + "; ".join(preamble_fail[:3]))
            # vacuity
            if not vac.ok:
                self.undecided.append(f"verus unit {unit} vacuity file: {vac.reason}")
            else:
                for vf_name in g.vac_fns:
                    rs = vac.fn_results.get(vf_name)
                    self.vacuity_probes += 1
                    if not rs or any(x["success"] for x in rs):
                        if rs is None and any(vf_name in (dg.get("rendered") or "") for dg in vac.diags):
                            continue
                        self.undecided.append(f"verus unit {unit}: vacuity probe {vf_name} "
                                              + ("verified (contradictory requires or inconsistent axioms)" if rs else "did not run"))
            fn_ok = {}
            for short, rs in main.fn_results.items():
                fn_ok[short] = all(x["success"] for x in rs)
            for ob in g.obligations:
                if prop not in ob.props or ob.oid in seen_oids:
                    continue
                seen_oids.add(ob.oid)
                row = {"id": ob.oid, "backend": "verus", "kind": ob.kind, "function": ob.src, "clause": ob.text, "status": "discharged"}
                if ob.oid in failed_oids:
                    fl = failed_oids[ob.oid]
                    if all(not x["definite"] for x in fl):
                        row["status"] = "undecided"
                        self.undecided.append(f"{ob.oid}: " + fl[0]["message"])
                    else:
                        row["status"] = "failed"
                        verus_failed[ob.oid] = {"ob": ob, "diags": fl, "unit": unit}
                self.oblig_rows.append(row)
            for f in g.fns:
                if prop in f.props and f.contracted:
                    self.fns_under_contract.append(f.qual)
        # ---- Kani verdicts -------------------------------------------------------------------
        need_playback = []
        for r in kres:
            h = r.harness
            row = {"id": h.oid, "backend": "kani/cbmc", "kind": h.kind, "function": h.modpath, "clause": h.text,
                   "status": r.status, "time_s": round(r.time_s, 2), "checks": r.checks_total, "bound": h.bound}
            self.solver_ms[f"kani:{h.oid}"] = round(r.time_s * 1000)
            if r.stubs:
                for s in r.stubs:
                    self.assumptions.add(f"[kani:{h.oid}] stub: {s}")
            if h.kind == "vacuity":
                self.covers += r.covers.get("satisfied", 0)
                if r.status != "success" or r.covers.get("satisfied", 0) != r.covers.get("total", -1) or not r.covers:
                    self.undecided.append(f"kani vacuity harness {h.oid}: {r.status} covers={r.covers}")
                row["status"] = "covers-satisfied" if r.status == "success" else r.status
                self.bounded_rows.append(row)
                continue
            if h.kind == "attempt":
                if r.status == "failure":
                    need_playback.append(r)
                self.attempt_rows.append(row)
                continue
            if r.status == "success":
                row["status"] = "discharged"
            elif r.status == "failure":
                need_playback.append(r)
            else:
                self.undecided.append(f"kani harness {h.oid}: {r.status} " + (r.raw[-400:].replace("\n", " | ") if r.status in ("error", "missing") else ""))
            (self.oblig_rows if h.kind == "complete" else self.bounded_rows).append(row)
        # paired harnesses of failed Verus obligations are replayed too
        for oid, info in verus_failed.items():
            for r in kres:
                if oid in r.harness.pairs and r.status == "failure" and r not in need_playback:
                    need_playback.append(r)
        # ---- counterexamples: second, sequential Kani pass with concrete playback, then native replay
        pb_results = {}
        if need_playback:
            hs = [r.harness for r in need_playback if not r.harness.contract][:6]
            if hs:
                pres, pcmd, _ = ku.run_kani(kani_snap, hs, 1, self.logs, playback=True, tag="-playback")
                self.cmds.append(pcmd)
                for pr in pres:
                    pb_results[pr.harness.oid] = pr
        findings, _fixed = load_known()
        os.makedirs(os.path.join(OUT, "replays"), exist_ok=True)

        def known(oid: str) -> dict | None:
            for f in findings:
                if f.get("property") == prop and f.get("obligation") == oid:
                    return f
            return None

        reported = set()
        natives = self.native_replay_all(kani_snap, [(r.harness, pb_results[r.harness.oid].playback) for r in need_playback
                                                    if r.harness.oid in pb_results and pb_results[r.harness.oid].playback])
        for r in need_playback:
            h = r.harness
            pr = pb_results.get(h.oid)
            native = natives.get(h.oid)
            rep = {"property": prop, "obligation": h.oid, "backend": "kani/cbmc", "harness": h.modpath, "harness_file": "kani/" + h.file,
                   "failed_checks": (pr.failed_checks if pr and pr.failed_checks else r.failed_checks)[:10],
                   "concrete_playback_test": pr.playback if pr else "", "native_replay": native,
                   "paired_verus_obligations": [p for p in h.pairs if p in verus_failed],
                   "verus_output": {p: [d["rendered"] for d in verus_failed[p]["diags"]][:3] for p in h.pairs if p in verus_failed},
                   "clause": h.text, "bound": h.bound, "repo_files": {h.target: sha(os.path.join(REPO, h.target))}}
            for p in h.pairs:
                reported.add(p)
            kf = known(h.oid) or next((known(p) for p in h.pairs if known(p)), None)
            if kf:
                self.known_hits.append({"finding": kf, "obligation": h.oid})
                continue
            rp = os.path.join(OUT, "replays", f"{prop}-{re.sub(r'[^A-Za-z0-9_.-]', '_', h.oid)}.json")
            json.dump(rep, open(rp, "w"), indent=1)
            has_input = bool(pr and pr.playback)
            self.violations.append({"obligation": h.oid, "replay": rp, "input": has_input, "native": native})
        for oid, info in verus_failed.items():
            if oid in reported:
                continue
            paired = [r for r in kres if oid in r.harness.pairs]
            if any(r.harness.kind == "complete" and r.status == "success" for r in paired):
                self.undecided.append(f"{oid}: Verus fails but the complete paired Kani harness passes on the compiled code "
                                      f"(proof brittleness, not a defect): " + info["diags"][0]["message"])
                for row in self.oblig_rows:
                    if row["id"] == oid:
                        row["status"] = "undecided"
                continue
            kf = known(oid)
            if kf:
                self.known_hits.append({"finding": kf, "obligation": oid})
                continue
            ob = info["ob"]
            rp = os.path.join(OUT, "replays", f"{prop}-{re.sub(r'[^A-Za-z0-9_.-]', '_', oid)}.json")
            json.dump({"property": prop, "obligation": oid, "backend": "verus", "function": ob.src, "clause": ob.text,
                       "verifier_output": [d["rendered"] for d in info["diags"]][:5], "counterexample": None,
                       "note": "Verus gives no counterexample; paired bounded Kani harnesses found none: no-failing-input-found",
                       "paired_kani": [{"id": r.harness.oid, "status": r.status, "bound": r.harness.bound} for r in paired]},
                      open(rp, "w"), indent=1)
            self.violations.append({"obligation": oid, "replay": rp, "input": False, "native": None})
        return self.finish(t0)

    # ------------------------------------------------------------------------------------------
    def native_replay_all(self, kani_snap: str, items: list) -> dict:
        """Re-execute all counterexamples natively (no verifier) against the snapshot of the real code, one build."""
        if not items:
            return {}
        d = os.path.join(self.scratch, "replay-crate")
        if os.path.exists(d):
            shutil.rmtree(d)
        shutil.copytree(kani_snap, d, ignore=shutil.ignore_patterns("target"))
        return native_replay_in(d, [(h.oid, h.target, f"verif_kani_{os.path.splitext(h.file)[0]}", src) for h, src in items],
                                os.path.join(self.scratch, "replay-target"))

    # ------------------------------------------------------------------------------------------
    def finish(self, t0: float) -> int:
        prop = self.prop
        wall = time.time() - t0
        proof_rows = self.oblig_rows
        # obligations covered by a committed known finding are reported separately (coverage.known_finding_obligations) and are
        # not part of obligations/discharged: the proof-level claim is "everything except the listed findings"
        known_oids = {k["obligation"] for k in self.known_hits} | {p for k in self.known_hits for p in k.get("pairs", [])}
        for r in proof_rows:
            if r["id"] in known_oids:
                r["status"] = "known-finding"
        counted = [r for r in proof_rows if r["status"] != "known-finding"]
        n = len(counted)
        disc = sum(1 for r in counted if r["status"] == "discharged")
        meta = load_meta().get(prop, {})
        samples = []
        for r in proof_rows[:3] + self.bounded_rows[:2]:
            samples.append({k: r[k] for k in ("id", "backend", "kind", "function", "clause", "status") if k in r})
        if not (self.violations or self.undecided) and n == 0:
            self.undecided.append("no obligations were generated for this property")
        ev = {
            "property_id": prop, "tier": self.tier, "seed": self.seed, "level": "proof",
            "coverage": {
                "obligations": n, "discharged": disc,
                "checker_cmd": " ;; ".join(self.cmds)[:4000] or "n/a",
                "trusted_base": [
                    "Verus 0.2026.09.13 + Z3 (vstd specs of VecDeque/Option/integer ops/slices)",
                    "Kani 0.68.0 + CBMC 6.11 + CaDiCaL (bit-precise model of the compiled crate)",
                    "rustc (Verus toolchain 1.98.1, Kani nightly)",
                    "extraction (lib/rsextract.py): drop rules R1-R6 of DESIGN.md 2.2; logging/metrics are not part of the verified semantics",
                ] + sorted(self.assumptions),
                "samples": samples,
                "functions_under_contract": sorted(set(self.fns_under_contract)),
                "obligation_table": proof_rows,
                "bounded_checks": self.bounded_rows,
                "attempt_class": self.attempt_rows,
                "verus_verified_items": self.verus_verified,
                "vacuity_probes_rejected": self.vacuity_probes,
                "kani_covers_satisfied": self.covers,
                "solver_ms": self.solver_ms,
                "undecided_clauses_of_the_statement": meta.get("not_decided", []),
                "decided_scope": meta.get("decided", ""),
                "known_findings": [k["finding"] for k in self.known_hits],
                "known_finding_obligations": sorted(known_oids),
                "undecided_this_run": self.undecided,
                "exhaustive": False,
                "repo_head": subprocess.run(["git", "-C", REPO, "rev-parse", "--short", "HEAD"], capture_output=True, text=True).stdout.strip(),
            },
            "assumptions": meta.get("assumptions", []) + ["see coverage.trusted_base for the per-run mechanical scan of assume/external_body/stubs"],
            "wall_s": round(wall, 1),
            "violations": len(self.violations),
        }
        os.makedirs(os.path.join(OUT, "evidence"), exist_ok=True)
        json.dump(ev, open(os.path.join(OUT, "evidence", f"{prop}.json"), "w"), indent=1)
        for k in self.known_hits:
            print(f"KNOWN-FINDING: property={prop} obligation={k['obligation']} {k['finding'].get('what', '')}")
        for v in self.violations:
            tail = "" if v["input"] else " no-failing-input-found"
            print(f"VIOLATION property={prop} replay={v['replay']} obligation={v['obligation']}{tail}")
        for u in self.undecided:
            print(f"UNDECIDED property={prop} {u}")
        print(f"{prop}: tier={self.tier} obligations={n} discharged={disc} bounded={len(self.bounded_rows)} "
              f"attempt={len(self.attempt_rows)} violations={len(self.violations)} known={len(self.known_hits)} "
              f"undecided={len(self.undecided)} wall={wall:.1f}s")
        if not self.keep:
            shutil.rmtree(self.scratch, ignore_errors=True)
        else:
            print("scratch kept at", self.scratch)
        if self.violations:
            return 1
        if self.undecided:
            return 2
        return 0


def _strip_doc(playback_src: str) -> str:
    i = playback_src.find("#[test]")
    return playback_src[i:] if i >= 0 else playback_src


def native_replay_in(crate_dir: str, items: list, target_dir: str) -> dict:
    """items: [(oid, target file, harness module name, playback test source)]. Appends Kani's concrete-playback unit tests to
    the harness modules and runs them with `cargo kani playback` (plain native execution of the real code with the recorded
    values; the harness assertions are ordinary Rust asserts). Returns {oid: result}."""
    names: dict[str, list[str]] = {}
    for oid, target, modname, src in items:
        tp = os.path.join(crate_dir, target)
        s = open(tp).read()
        marker = f"mod {modname} {{"  # (declared `pub(crate) mod ...`)
        i = s.find(marker)
        if i < 0:
            names[oid] = []
            continue
        # end of that module: matching brace
        depth, j = 0, i + len(marker) - 1
        while j < len(s):
            if s[j] == "{":
                depth += 1
            elif s[j] == "}":
                depth -= 1
                if depth == 0:
                    break
            j += 1
        body = _strip_doc(src)
        names[oid] = re.findall(r"fn (kani_concrete_playback_\w+)\(", body)
        s = s[:j] + "\n" + body + "\n" + s[j:]
        open(tp, "w").write(s)
    env = dict(os.environ, CARGO_NET_OFFLINE="true", CARGO_TARGET_DIR=target_dir, CARGO_TERM_COLOR="never", RUST_BACKTRACE="0")
    try:
        p = subprocess.run(["cargo", "kani", "playback", "-Z", "concrete-playback", "-Z", "function-contracts", "--lib", "--",
                            "kani_concrete_playback"], cwd=crate_dir, capture_output=True, text=True, env=env, timeout=1800)
        out = p.stdout + p.stderr
    except subprocess.TimeoutExpired:
        out = "native replay timed out"
    shutil.rmtree(target_dir, ignore_errors=True)
    res = {}
    for oid, tests in names.items():
        st = {}
        for t in tests:
            m = re.search(r"test \S*" + re.escape(t) + r" \.\.\. (\w+)", out)
            st[t] = m.group(1) if m else "not-run"
        panic = ""
        for t in tests:
            m = re.search(r"---- \S*" + re.escape(t) + r" stdout ----\n(.*?)\n\n", out, re.S)
            if m:
                pm = re.search(r"panicked at [^\n]*\n[^\n]*", m.group(1))
                panic = pm.group(0) if pm else m.group(1)[-600:]
        ran = any(v in ("ok", "FAILED") for v in st.values())
        res[oid] = {"ran": ran, "tests": st, "reproduced_natively": any(v == "FAILED" for v in st.values()), "panic": panic}
        if not ran:
            res[oid]["reason"] = out[-800:]
    return res


def replay(path: str) -> int:
    rep = json.load(open(path))
    print(json.dumps({k: rep.get(k) for k in ("property", "obligation", "backend", "clause")}, indent=1))
    if not rep.get("concrete_playback_test"):
        print("no concrete input recorded (no-failing-input-found); verifier output follows")
        for x in rep.get("verifier_output", []):
            print(x)
        return 0
    scratch = tempfile.mkdtemp(prefix="verif-replay-")
    try:
        snap = os.path.join(scratch, "crate")
        ku.make_snapshot(REPO, snap)
        f = os.path.basename(rep["harness_file"])
        ku.prepare_crate(snap, [f])
        target = ku.parse_harness_file(os.path.join(VERIF, "kani", f))[0]
        res = native_replay_in(snap, [(rep["obligation"], target, f"verif_kani_{os.path.splitext(f)[0]}", rep["concrete_playback_test"])],
                               os.path.join(scratch, "target"))[rep["obligation"]]
        print(json.dumps(res, indent=1))
        return 1 if res.get("reproduced_natively") else 0
    finally:
        shutil.rmtree(scratch, ignore_errors=True)


def main() -> int:
    ap = argparse.ArgumentParser()
    ap.add_argument("property", nargs="?")
    ap.add_argument("--tier", default=os.environ.get("VERIF_TIER", "quick"), choices=["quick", "thorough"])
    ap.add_argument("--jobs", type=int, default=int(os.environ.get("VERIF_JOBS", "16")))
    ap.add_argument("--keep", action="store_true")
    ap.add_argument("--replay")
    a = ap.parse_args()
    if a.replay:
        return replay(a.replay)
    if not a.property:
        ap.error("property id required")
    seed = int(os.environ.get("VERIF_SEED", "0") or 0)
    run = Run(a.property, a.tier, a.jobs, a.keep, seed)
    try:
        return run.run()
    except Exception as e:  # noqa: BLE001  -- tooling problems are never violations
        import traceback
        traceback.print_exc()
        print(f"UNDECIDED property={a.property} driver error: {e}")
        if not a.keep:
            shutil.rmtree(run.scratch, ignore_errors=True)
        return 2


if __name__ == "__main__":
    sys.exit(main())
