#!/usr/bin/env python3
"""Development helper: generate one Verus unit from /repo (or another tree) and run it."""
import sys, os, json, shutil
sys.path.insert(0, os.path.dirname(__file__))
import verus_unit as vu
unit = sys.argv[1]
args = [a for a in sys.argv[2:] if not a.startswith("--")]
tree = args[0] if args else "/repo"
out = f"/tmp/devgen/{unit}"
os.makedirs(out, exist_ok=True)
g = vu.generate(f"/verif/contracts/{unit}.vrs", tree)
open(f"{out}/{unit}.rs", "w").write(g.main_text)
open(f"{out}/{unit}_vac.rs", "w").write(g.vac_text)
for e in g.excluded:
    print("EXCLUDED", e[0], "::", e[1])
print("obligations:", len(g.obligations), "fns:", [f.name for f in g.fns], "fired:", g.fired_rules)
r = vu.run_verus(f"{out}/{unit}.rs")
print("MAIN ok=", r.ok, r.reason, "verified=", r.verified, "errors=", r.errors, "wall=", round(r.wall_s,1), "smt_ms=", r.smt_ms)
for d in r.diags:
    print("  DIAG", d["message"], "line", d["line"], "->", g.line_to_oid.get(d["line"]))
    print("   ", d["rendered"][:1500])
if "--vac" in sys.argv:
    r = vu.run_verus(f"{out}/{unit}_vac.rs", rlimit=2)
    print("VAC ok=", r.ok, r.reason, "verified=", r.verified, "errors=", r.errors, "wall=", round(r.wall_s,1))
    for k, v in r.fn_results.items():
        if k.startswith("verif_"):
            print("  ", k, v)
    for d in r.diags:
        if not any(d["message"].startswith(x) for x in vu.DEFINITE) and "rlimit" not in d["message"]:
            print("  DIAG", d["message"], d["rendered"][:800])
