// Demonstration for finding F7 (C17, also C03): append to /repo/src/stream_dispatch/tests/mtu_probing.rs.
// `this_poll.unsegmented_data` is only refreshed at the END of split_tx_queue_into_segments. While an MTU probe is
// in flight that function returns early (PopExpiredProbe::NotExpired) and leaves the value of an EARLIER poll in
// place. If that earlier poll had segmented everything (0 left) and the application then writes more and lets go
// of the stream, `unsent_data_exists()` is wrongly false: the FIN is sent although accepted bytes were never
// transmitted, and those bytes are later segmented with the FIN's own sequence number and sent AFTER the FIN.
#[tokio::test]
async fn verif_f7_fin_waits_for_data_written_while_a_probe_is_in_flight() {
    setup_test_logging();
    let mut t = make_test_vsock(
        SocketOpts {
            disable_nagle: true,
            ..Default::default()
        },
        false,
    );
    t.vsock
        .congestion_controller
        .on_recovered(1024 * 1024, 100 * 1024 * 1024);
    let first = calc_payload_size(576);
    let probe = calc_payload_size(1039);
    let (r, mut w) = t.stream.take().unwrap().split();
    // exactly one ordinary segment plus one probe: nothing is left unsegmented after this poll
    w.write_all(make_payload(first + probe).as_bytes()).await.unwrap();
    t.poll_once_assert_pending().await;
    assert_eq!(
        t.take_sent(),
        vec![
            cmphead!(ST_DATA, seq_nr = 101, payload = make_payload(first)),
            cmphead!(ST_DATA, seq_nr = 102, payload = make_payload(probe)),
        ]
    );

    // more data is accepted while the probe (102) is un-ACKed, then the application lets go of the stream
    w.write_all(b"tail-of-the-stream").await.unwrap();
    drop(w);
    drop(r);
    let _ = t.poll_once().await;
    let sent = t.take_sent();
    assert!(
        !sent.iter().any(|m| m.header.get_type() == ST_FIN),
        "FIN sent while accepted bytes were never transmitted: {sent:?}"
    );
}
