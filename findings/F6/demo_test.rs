// Demonstration for finding F6 (C04 / C17): append to /repo/src/stream_dispatch/tests/shutdown.rs.
// An accepted connection that has sent its SYN-ACK (state SynAckSent) and whose initiator sends one data packet
// (seq 1) followed by FIN (seq 2). The data packet is lost; the FIN arrives first. The FIN is not in sequence, yet it
// is honoured: the endpoint goes to Closed and acknowledges seq 2, i.e. it tells the initiator that the data packet
// it never received has arrived. (In Established / FinWait1 / FinWait2 the same FIN is correctly dropped.)
#[tokio::test]
async fn verif_f6_out_of_sequence_fin_in_syn_ack_sent_is_not_acknowledged() {
    setup_test_logging();
    let mut t = make_test_vsock(Default::default(), true);
    t.poll_once_assert_pending().await;
    assert_eq!(t.take_sent(), vec![cmphead!(ST_STATE, seq_nr = 101, ack_nr = 0)], "SYN-ACK");

    // seq 1 (data) is lost; seq 2 (FIN) arrives
    t.send_msg(
        UtpHeader { htype: ST_FIN, seq_nr: 2.into(), ack_nr: 100.into(), wnd_size: 1024 * 1024, ..Default::default() },
        "",
    );
    let _ = t.poll_once().await;
    for m in t.take_sent() {
        assert!(
            m.header.ack_nr != 2.into() && m.header.ack_nr != 1.into(),
            "sent {:?} acknowledging seq_nr={} although seq_nr=1 was never received",
            m.header.get_type(),
            m.header.ack_nr
        );
    }
}
