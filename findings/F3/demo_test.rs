// Demonstration for finding F3 (C09): append to /repo/src/stream_rx.rs. RECORDED, NOT REPAIRED (see DESIGN.md 7).
// With the default 1 MiB receive buffer and the IPv4 minimum MSS (528) the reassembly window has 1985 slots, but
// sequence-number comparison is only modular up to WRAP_TOLERANCE = 1024. A packet 1200 ahead of the last consumed
// one is inside the advertised window, yet across the 16-bit wrap its distance is computed as -64336, so the
// dispatcher treats it as a duplicate and drops it.
#[cfg(test)]
mod verif_f3_demo {
    use super::*;
    use crate::{constants::{RX_BUF_SIZE_PER_VSOCK_DEFAULT, WRAP_TOLERANCE}, seq_nr::SeqNr};
    #[test]
    fn verif_f3_window_exceeds_wrap_tolerance() {
        let (rx, _reader) = UserRx::build(RX_BUF_SIZE_PER_VSOCK_DEFAULT, NonZeroUsize::new(528).unwrap());
        let slots = rx.ooq.capacity;
        assert_eq!(slots, 1985);
        // last consumed = 64999; the packet with seq_nr 664 is 1200 packets ahead: inside the 1985-slot window
        let offset = SeqNr(664) - (SeqNr(64999) + 1);
        assert!((1200usize) < slots);
        assert_eq!(offset, 1200, "in-window distance across the wrap (slots = {slots}, tolerance = {WRAP_TOLERANCE})");
    }
}
