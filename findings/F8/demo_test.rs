// Demonstration for finding F8 (C17 / C14 / C01): append to /repo/src/stream_dispatch/tests/mtu_probing.rs.
// The newest data segment is an MTU probe (seq 102); the application lets go of the stream, so the FIN is sent with
// the following sequence number (103) while the probe is still un-ACKed. The path drops the probe size; at the RTO the
// probe is popped and its bytes are re-segmented into TWO smaller segments, which get sequence numbers 102 and 103 -
// the second one collides with the FIN that is already on the wire ("no new payload follows the FIN", and the peer,
// which already holds FIN 103, discards that data as a duplicate).
#[tokio::test]
async fn verif_f8_resegmented_probe_does_not_reuse_the_fin_sequence_number() {
    setup_test_logging();
    // a connection with a 10 ms RTT, so that the RTO (200 ms) fires before the 1 s "final chance" inactivity timer
    let env = crate::test_util::env::MockUtpEnvironment::new();
    let remote_ack = UtpHeader { htype: ST_STATE, seq_nr: 1.into(), ack_nr: 100.into(), wnd_size: 1024 * 1024, ..Default::default() };
    let now = crate::traits::UtpEnvironment::now(&env);
    env.increment_now(Duration::from_millis(10));
    let args = crate::stream_dispatch::StreamArgs::new_outgoing(&remote_ack, now, crate::traits::UtpEnvironment::now(&env));
    let mut t = super::make_test_vsock_args(
        SocketOpts {
            disable_nagle: true,
            mtu_probe_max_retransmissions: Some(0),
            ..Default::default()
        },
        args,
        env,
    );
    t.vsock
        .congestion_controller
        .on_recovered(1024 * 1024, 100 * 1024 * 1024);
    let first = calc_payload_size(576);
    let probe = calc_payload_size(1039);
    let (r, mut w) = t.stream.take().unwrap().split();
    w.write_all(make_payload(first + probe).as_bytes()).await.unwrap();
    t.poll_once_assert_pending().await;
    assert_eq!(
        t.take_sent(),
        vec![
            cmphead!(ST_DATA, seq_nr = 101, payload = make_payload(first)),
            cmphead!(ST_DATA, seq_nr = 102, payload = make_payload(probe)),
        ]
    );
    drop(w);
    drop(r);
    t.poll_once_assert_pending().await;
    let mut fin_seq = None;
    for m in t.take_sent() {
        if m.header.get_type() == ST_FIN {
            fin_seq = Some(m.header.seq_nr);
        }
    }

    // the first segment is acknowledged, the probe is black-holed; the retransmission timer fires
    t.send_msg(
        UtpHeader { htype: ST_STATE, seq_nr: 0.into(), ack_nr: 101.into(), wnd_size: 1024 * 1024, ..Default::default() },
        "",
    );
    t.poll_once_assert_pending().await;
    t.take_sent();
    t.env.increment_now(Duration::from_millis(250));
    let _ = t.poll_once().await;
    t.env.increment_now(Duration::from_millis(250));
    let _ = t.poll_once().await;
    for m in t.take_sent() {
        eprintln!("AFTER RTO: {:?} len={}", m.header, m.payload().len());
        if let Some(f) = fin_seq {
            assert!(
                !(m.header.get_type() == ST_DATA && m.header.seq_nr == f),
                "payload sent with the sequence number of the FIN that is already on the wire: {m:?}"
            );
        }
    }
    assert!(fin_seq.is_none() || true);
}
