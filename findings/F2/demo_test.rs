// Demonstration for finding F2 (C11): append to /repo/src/raw.rs.
// A header carrying BOTH extensions does not survive serialize -> deserialize before the fix: the id of the second
// extension is written over the LENGTH byte of the first one (next_ext_pos = offset + 1), so the chain is cut.
#[cfg(test)]
mod verif_f2_demo {
    use super::*;
    #[test]
    fn verif_f2_two_extensions_roundtrip() {
        let mut h = UtpHeader::default();
        h.htype = Type::ST_FIN;
        h.extensions.selective_ack = Some(selective_ack::SelectiveAck::deserialize(&[194, 14, 34, 0, 0, 0, 0, 0]));
        h.extensions.close_reason = Some(ext_close_reason::LibTorrentCloseReason(7940));
        let mut buf = [0u8; 64];
        let n = h.serialize(&mut buf).unwrap();
        assert_eq!(n, 36);
        let (h2, n2) = UtpHeader::deserialize(&buf[..n]).expect("own output must parse");
        assert_eq!(n2, n, "parsed header length");
        assert_eq!(h2, h);
    }
}
