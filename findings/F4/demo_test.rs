// Demonstration for finding F4 (C14): append to /repo/src/stream_dispatch/tests/mtu_probing.rs.
// The socket is configured with link_mtu = 1500, i.e. no uTP payload may exceed 1500 - 20 - 8 - 20 = 1452 bytes.
// A peer that sends ONE data packet with a larger payload (it sits on a jumbo / loopback link) raises our
// "known good" segment size AND the probing ceiling above the configured link MTU, and from then on we emit
// ordinary (non-probe) datagrams larger than the configured link MTU allows.
#[tokio::test]
async fn verif_f4_peer_payload_size_must_not_raise_segment_size_above_link_mtu() {
    setup_test_logging();
    let mut t = make_test_vsock(
        SocketOpts {
            link_mtu: Some(non_zero_const!(1500)),
            vsock_tx_bufsize_bytes_initial: Some(non_zero_const!(1024 * 1024)),
            disable_nagle: true,
            ..Default::default()
        },
        false,
    );
    let limit = calc_payload_size(1500);
    assert_eq!(t.vsock.segment_sizes.max_ss() as usize, limit);

    // the peer sends one in-order data packet with a 4000-byte payload
    t.send_msg(
        UtpHeader {
            htype: ST_DATA,
            seq_nr: 1.into(),
            ack_nr: 100.into(),
            wnd_size: 1024 * 1024,
            ..Default::default()
        },
        &make_payload(4000),
    );
    t.poll_once_assert_pending().await;
    t.take_sent();

    t.vsock
        .congestion_controller
        .on_recovered(1024 * 1024, 100 * 1024 * 1024);
    let (_r, mut w) = t.stream.take().unwrap().split();
    w.write_all(make_payload(20000).as_bytes()).await.unwrap();
    t.poll_once_assert_pending().await;
    let sent = t.take_sent();
    assert!(!sent.is_empty());
    for m in &sent {
        assert!(
            m.payload().len() <= limit,
            "emitted a {}-byte payload, the configured link MTU allows at most {}",
            m.payload().len(),
            limit
        );
    }
}
