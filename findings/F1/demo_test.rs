// Demonstration for finding F1 (C01/C14): append this test to /repo/src/stream_dispatch/tests/mtu_probing.rs.
// It is the shipped `probe_retry_if_emsgsize` scenario with a NON-UNIFORM payload: after the first MTU probe is
// rejected with EMSGSIZE and popped, the retried segment must carry the bytes that directly follow segment 101.
// Before the fix it carries bytes from 999 positions further on (the popped probe's range is skipped for good).
#[tokio::test]
async fn verif_f1_probe_pop_keeps_stream_offsets() {
    setup_test_logging();
    let mut t = make_test_vsock(
        SocketOpts {
            disable_nagle: true,
            ..Default::default()
        },
        false,
    );
    const FAKE_MTU: usize = 1000;
    t.transport
        .set_max_payload_len((FAKE_MTU as u16 - IPV4_HEADER - UDP_HEADER) as usize);
    t.vsock
        .segment_sizes
        .set_probe_expiry_cooldown_max_packets(2);
    t.vsock
        .congestion_controller
        .on_recovered(1024 * 1024, 100 * 1024 * 1024);

    let written: String = (0..30000usize)
        .map(|i| (b'a' + (i % 23) as u8 + ((i / 97) % 3) as u8) as char)
        .collect();
    let (_r, mut w) = t.stream.take().unwrap().split();
    w.write_all(written.as_bytes()).await.unwrap();

    t.poll_once_assert_pending().await;
    let sent = t.take_sent();
    let s1 = calc_payload_size(576);
    let s2 = calc_payload_size(808);
    assert_eq!(sent.len(), 3);
    assert_eq!(sent[0].header.seq_nr, 101.into());
    assert_eq!(sent[0].payload(), &written.as_bytes()[..s1]);
    // sent[1] is the oversized probe that the transport rejected (EMSGSIZE); it is popped and retried smaller
    assert_eq!(sent[2].header.seq_nr, 102.into());
    assert_eq!(sent[2].payload().len(), s2);
    assert_eq!(
        sent[2].payload(),
        &written.as_bytes()[s1..s1 + s2],
        "segment 102 must carry the bytes that follow segment 101"
    );
}
