// Demonstration for finding F5 (C10): append to /repo/src/stream_dispatch/tests/shutdown.rs (needs findings/F5/demo.diff,
// which adds a `set_pending` switch to the test transport: a full UDP send buffer).
// Clean close handshake, but the transport is busy at the moment the final ACK (of the peer's FIN) should go out, so
// poll() returns Pending with state == Closed. The peer, not having seen that ACK, retransmits its FIN. The next poll
// feeds that packet to the (state, packet type) table in state Closed, which returns the internal error
// "bug: received a packet in Closed state" instead of ignoring the packet and finishing cleanly.
#[tokio::test]
async fn verif_f5_retransmitted_fin_after_pending_final_ack_is_not_a_bug_error() {
    setup_test_logging();
    let mut t = make_test_vsock(Default::default(), false);
    let (reader, writer) = t.stream.take().unwrap().split();
    drop(reader);
    drop(writer);
    t.poll_once_assert_pending().await;
    assert_eq!(t.take_sent(), vec![cmphead!(ST_FIN, seq_nr = 101, ack_nr = 0)]);

    // peer acks our FIN -> FinWait2
    t.send_msg(UtpHeader { htype: ST_STATE, seq_nr: 0.into(), ack_nr: 101.into(), wnd_size: 1024, ..Default::default() }, "");
    t.poll_once_assert_pending().await;

    // peer's FIN arrives while the UDP send buffer is full: the final ACK cannot be sent in this poll
    t.transport.set_pending(true);
    t.send_msg(UtpHeader { htype: ST_FIN, seq_nr: 1.into(), ack_nr: 101.into(), wnd_size: 1024, ..Default::default() }, "");
    t.poll_once_assert_pending().await;
    t.assert_sent_empty();

    // the peer retransmits its FIN (it never got our ACK); the send buffer has drained
    t.transport.set_pending(false);
    t.send_msg(UtpHeader { htype: ST_FIN, seq_nr: 1.into(), ack_nr: 101.into(), wnd_size: 1024, ..Default::default() }, "");
    let result = t.poll_once().await;
    match result {
        Poll::Ready(Ok(())) => {}
        Poll::Pending => {}
        Poll::Ready(Err(e)) => panic!("connection ended with an internal error: {e}"),
    }
}
