use proc_macro::TokenStream;
#[proc_macro_attribute]
pub fn instrument(_attr: TokenStream, item: TokenStream) -> TokenStream { item }
