//! No-op stand-in for the `tracing` crate: every logging macro expands to `()` and
//! never evaluates its arguments (same as real tracing with the level disabled).
pub use tracing_attr_noop::instrument;

#[derive(Clone, Copy, Debug, PartialEq, Eq, PartialOrd, Ord, Hash)]
pub struct Level(u8);
impl Level {
    pub const ERROR: Level = Level(1);
    pub const WARN: Level = Level(2);
    pub const INFO: Level = Level(3);
    pub const DEBUG: Level = Level(4);
    pub const TRACE: Level = Level(5);
}
#[derive(Clone, Debug, PartialEq, Eq, Hash)]
pub struct Id(u64);
#[derive(Clone, Debug, Default)]
pub struct Span;
pub mod span { pub struct Entered<'a>(pub core::marker::PhantomData<&'a ()>); pub use super::Span; pub use super::Id; }
impl Span {
    pub fn current() -> Span { Span }
    pub fn none() -> Span { Span }
    pub fn enter(&self) -> span::Entered<'_> { span::Entered(core::marker::PhantomData) }
    pub fn id(&self) -> Option<Id> { None }
}
pub mod instrument_mod {
    pub struct Instrumented<F>(pub F);
    impl<F: core::future::Future> core::future::Future for Instrumented<F> {
        type Output = F::Output;
        fn poll(self: core::pin::Pin<&mut Self>, cx: &mut core::task::Context<'_>) -> core::task::Poll<F::Output> {
            unsafe { self.map_unchecked_mut(|s| &mut s.0) }.poll(cx)
        }
    }
}
pub trait Instrument: Sized {
    fn instrument(self, _span: Span) -> instrument_mod::Instrumented<Self> { instrument_mod::Instrumented(self) }
}
impl<T: Sized> Instrument for T {}

#[macro_export] macro_rules! event { ($($t:tt)*) => { () }; }
#[macro_export] macro_rules! trace { ($($t:tt)*) => { () }; }
#[macro_export] macro_rules! debug { ($($t:tt)*) => { () }; }
#[macro_export] macro_rules! info { ($($t:tt)*) => { () }; }
#[macro_export] macro_rules! warn { ($($t:tt)*) => { () }; }
#[macro_export] macro_rules! error { ($($t:tt)*) => { () }; }
#[macro_export] macro_rules! span { ($($t:tt)*) => { $crate::Span }; }
#[macro_export] macro_rules! trace_span { ($($t:tt)*) => { $crate::Span }; }
#[macro_export] macro_rules! debug_span { ($($t:tt)*) => { $crate::Span }; }
#[macro_export] macro_rules! info_span { ($($t:tt)*) => { $crate::Span }; }
#[macro_export] macro_rules! warn_span { ($($t:tt)*) => { $crate::Span }; }
#[macro_export] macro_rules! error_span { ($($t:tt)*) => { $crate::Span }; }
