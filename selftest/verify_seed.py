#!/usr/bin/env python3
"""Confirm a seeded change: (1) demo only: everything passes; (2) patch only: the 76 existing tests pass; (3) patch + demo: only the
demonstration test(s) fail. usage: verify_seed.py <dir with patch.diff + demo.diff>"""
import json, os, re, subprocess, sys, shutil
d = os.path.abspath(sys.argv[1])
wt = "/tmp/seedverify-wt"
env = dict(os.environ, CARGO_TARGET_DIR="/tmp/seedverify-target", RUST_BACKTRACE="0")
def sh(*a, **k): return subprocess.run(a, capture_output=True, text=True, **k)
sh("git", "-C", "/repo", "worktree", "remove", "--force", wt)
r = sh("git", "-C", "/repo", "worktree", "add", "-q", wt, "HEAD"); assert r.returncode == 0, r.stderr
def tests():
    p = sh("cargo", "test", "--offline", "--workspace", "--no-fail-fast", cwd=wt, env=env)
    out = p.stdout + p.stderr
    if "error: could not compile" in out or re.search(r"^error\[E", out, re.M):
        return None, out[-2000:]
    passed = sum(int(x) for x in re.findall(r"test result: \w+\. (\d+) passed", out))
    failed = sorted(set(re.findall(r"^    (\S+)$", "\n".join(re.findall(r"^failures:\n((?:    \S+\n)+)", out, re.M)), re.M)))
    return {"passed": passed, "failed": failed}, out
def reset(): sh("git", "checkout", "--", ".", cwd=wt); sh("git", "clean", "-fdq", cwd=wt)
report = {}
try:
    demo_txt = open(os.path.join(d, "demo.diff")).read()
    demo_fns = re.findall(r"^\+\s*#\[(?:tokio::)?test[^\n]*\n(?:^\+[^\n]*\n)*?^\+\s*(?:pub )?(?:async )?fn (\w+)", demo_txt, re.M)
    report["demo_fns"] = demo_fns
    # 1 demo only
    r = sh("git", "apply", os.path.join(d, "demo.diff"), cwd=wt); assert r.returncode == 0, "demo.diff does not apply: " + r.stderr
    res, out = tests(); assert res is not None, "demo does not compile: " + out
    report["demo_only"] = res
    reset()
    # 2 patch only
    r = sh("git", "apply", os.path.join(d, "patch.diff"), cwd=wt); assert r.returncode == 0, "patch.diff does not apply: " + r.stderr
    res2, out = tests(); assert res2 is not None, "patch does not compile: " + out
    report["patch_only"] = res2
    # 3 both
    r = sh("git", "apply", os.path.join(d, "demo.diff"), cwd=wt); assert r.returncode == 0, "demo.diff does not apply on top of patch: " + r.stderr
    res3, out = tests(); assert res3 is not None, "patch+demo does not compile: " + out
    report["patch_and_demo"] = res3
    ok = (not report["demo_only"]["failed"] and not res2["failed"] and res2["passed"] >= 76 and res3["failed"]
          and all(any(f.endswith("::" + n) or f == n for n in demo_fns) for f in res3["failed"]))
    report["confirmed"] = bool(ok)
finally:
    sh("git", "-C", "/repo", "worktree", "remove", "--force", wt)
print(json.dumps(report, indent=1))
