#!/usr/bin/env python3
"""Re-confirm every registered seed against /repo's current HEAD (fix: commits can neutralise a seed)."""
import json, os, subprocess, sys
V = os.path.dirname(os.path.dirname(os.path.abspath(__file__)))
sd = os.path.join(V, "seeded")
out = {}
for sid in sorted(os.listdir(sd)):
    d = os.path.join(sd, sid)
    if sid.startswith("_") or not os.path.isdir(d):
        continue
    rep = {}
    for attempt in range(3):
        p = subprocess.run([sys.executable, os.path.join(V, "selftest", "verify_seed.py"), d], capture_output=True, text=True)
        try:
            rep = json.loads(p.stdout[p.stdout.index("{"):])
        except Exception:
            rep = {"confirmed": False, "error": (p.stdout + p.stderr)[-400:]}
        if rep.get("confirmed"):
            break
    out[sid] = rep.get("confirmed", False)
    print(sid, "confirmed" if out[sid] else "NOT CONFIRMED " + json.dumps(rep)[:300], flush=True)
head = subprocess.run(["git", "-C", "/repo", "rev-parse", "--short", "HEAD"], capture_output=True, text=True).stdout.strip()
json.dump({"head": head, "confirmed": out}, open(os.path.join(V, "selftest", "seeds_reverified.json"), "w"), indent=1)
