#!/usr/bin/env python3
"""usage: add_seed.py <srcdir> <seed id> <property> <needs...>  - verify (selftest/verify_seed.py) and register under /verif/seeded/<id>/"""
import json, os, shutil, subprocess, sys
V = os.path.dirname(os.path.dirname(os.path.abspath(__file__)))
src, sid, prop = sys.argv[1], sys.argv[2], sys.argv[3]
needs = " ".join(sys.argv[4:])
rep = {}
for attempt in range(3):   # the two e2e tests that bind fixed UDP ports fail spuriously when other suites run concurrently
    p = subprocess.run([sys.executable, os.path.join(V, "selftest", "verify_seed.py"), src], capture_output=True, text=True)
    try:
        rep = json.loads(p.stdout[p.stdout.index("{"):])
    except Exception:
        print("verification did not run:", p.stdout[-800:], p.stderr[-800:]); sys.exit(1)
    if rep.get("confirmed"):
        break
print(json.dumps(rep, indent=1))
if not rep.get("confirmed"):
    print("NOT CONFIRMED - not registered"); sys.exit(1)
d = os.path.join(V, "seeded", sid)
os.makedirs(d, exist_ok=True)
for f in ("patch.diff", "demo.diff", "README.md"):
    shutil.copy2(os.path.join(src, f), os.path.join(d, f))
head = subprocess.run(["git", "-C", "/repo", "rev-parse", "--short", "HEAD"], capture_output=True, text=True).stdout.strip()
json.dump({"id": sid, "property": prop, "check_with": [prop], "needs_to_manifest": needs, "base_commit": head,
           "author": "independent sub-agent given only the property text and a scratch worktree",
           "confirmed_by": "selftest/verify_seed.py: demo alone passes; patch alone: existing suite passes; patch + demo: only the demonstration fails",
           "verification": rep}, open(os.path.join(d, "meta.json"), "w"), indent=1)
print("registered", d)
