#!/usr/bin/env python3
"""Development-time self-validation (not a registered check).

  selftest/run.py breaking [name...]   apply each property-breaking edit to a scratch copy of /repo and require the named check
                                       to exit 1 with a VIOLATION naming one of the expected obligations
  selftest/run.py harmless [name...]   apply each behaviour-preserving edit and require the named checks to exit 0
  selftest/run.py seeded [id...]       same as `breaking` for the patches under /verif/seeded/<id>/ (meta.json names the property)

The scratch copy is a plain copy of /repo's working tree (src + manifests); checks are pointed at it with VERIF_REPO and write
their evidence/replays into a scratch VERIF_OUT, so nothing committed is touched. Results: selftest/results.json.
"""
import json, os, re, shutil, subprocess, sys, tempfile, time

V = os.path.dirname(os.path.dirname(os.path.abspath(__file__)))
REPO = "/repo"


def sub(path, old, new, count=1):
    def f(root):
        p = os.path.join(root, path)
        s = open(p).read()
        assert old in s, f"selftest edit anchor not found in {path}: {old[:60]!r}"
        open(p, "w").write(s.replace(old, new, count))
    return f


# name -> (property checks to run, expected obligation id substrings, edit)
BREAKING = {
    "seq-off-by-one-tolerance": (["C09"], ["seq.offset", "seq.k."],
        sub("src/utils.rs", "if new.wrapping_sub(old) <= wrap_tolerance {", "if new.wrapping_sub(old) < wrap_tolerance {")),
    "txseg-remove-forgets-len-bytes": (["C01"], ["txseg.k.remove_cum"],
        sub("src/stream_tx_segments.rs", "                self.snd_una += 1;\n                self.len_bytes -= segment.payload_size;", "                self.snd_una += 1;")),
    "txseg-drain-one-too-many": (["C01"], ["txseg.k.remove_cum"],
        sub("src/stream_tx_segments.rs", "let drain_count = (offset as usize + 1).min(self.segments.len());", "let drain_count = (offset as usize + 2).min(self.segments.len());")),
    "txseg-iter-yields-delivered": (["C06"], ["txseg.k.iter"],
        sub("src/stream_tx_segments.rs", "            .filter(|s| !s.is_delivered())\n    }", "            .filter(|s| !s.is_delivered() || s.is_mtu_probe())\n    }")),
    "segloop-no-break-after-probe": (["C14"], ["segloop."],
        sub("src/stream_dispatch.rs", "                trace!(payload_size, \"MTU probing, not segmenting more data\");\n                break;", "                trace!(payload_size, \"MTU probing, not segmenting more data\");")),
    "rtte-no-doubling": (["C16"], ["rtte.k.timeout_doubles"],
        sub("src/rtte.rs", "            RttState::Subsequent { rto, .. } => {\n                *rto = clamp(*rto * 2);", "            RttState::Subsequent { rto, .. } => {\n                *rto = clamp(*rto);")),
    "ackdec-threshold-strict": (["C07"], ["ackdec.immediate_threshold"],
        sub("src/stream_dispatch.rs", "            >= IMMEDIATE_ACK_EVERY_RMSS * self.segment_sizes.mss() as usize", "            > IMMEDIATE_ACK_EVERY_RMSS * self.segment_sizes.mss() as usize")),
    "ackdec-delay-400ms": (["C07"], ["ackdec.const.ack_delay_40ms"],
        sub("src/constants.rs", "pub const ACK_DELAY: Duration = Duration::from_millis(40);", "pub const ACK_DELAY: Duration = Duration::from_millis(400);")),
    "ackdec-restart-delayed-ack": (["C07"], ["ackdec.maybe_send_ack.deadline_never_postponed"],
        sub("src/stream_dispatch.rs", ".arm(self.this_poll.now, ACK_DELAY, false, \"delayed ACK\");", ".arm(self.this_poll.now, ACK_DELAY, true, \"delayed ACK\");")),
    "nagle-inverted": (["C18"], ["segloop.sl3", "segloop.sl4", "segloop.inv.nagle"],
        sub("src/stream_dispatch.rs", "if self.socket_opts.nagle && !can_send_full_payload && data_in_flight {", "if !self.socket_opts.nagle && !can_send_full_payload && data_in_flight {")),
    "segloop-ignores-peer-window": (["C05"], ["segloop."],
        sub("src/stream_dispatch.rs", "let max_payload_size = (ss as usize).min(remote_window_remaining);", "let max_payload_size = ss as usize;")),
    "ooq-overwrites-present-slot": (["C04"], ["ooq.k.add_remove"],
        sub("src/stream_rx.rs", "        if !ooq_slot_is_default(slot) {\n            return Ok(AssemblerAddRemoveResult::AlreadyPresent);\n        }", "        if !ooq_slot_is_default(slot) && offset > 1 {\n            return Ok(AssemblerAddRemoveResult::AlreadyPresent);\n        }")),
    "sack-bits-shifted": (["C04"], ["ooq.k.selective_ack"],
        sub("src/stream_rx.rs", "        let start = self.filled_front + 1;\n        if start >= self.data.len() {", "        let start = self.filled_front;\n        if start >= self.data.len() {")),
    "wire-accept-version-0": (["C11"], ["wire.k.parse_vs_reference"],
        sub("src/raw.rs", "        if version != 1 {", "        if version > 1 {")),
    "wire-ext-len-off-by-one": (["C11"], ["wire.k.parse_vs_reference", "wire.k.message"],
        sub("src/raw.rs", "            let ext_data = buffer.get(2..2 + ext_len)?;", "            let ext_data = buffer.get(2..1 + ext_len).or_else(|| buffer.get(2..2))?;")),
    "mtu-probe-failed-raises-min": (["C14"], ["mtu.failed", "mtu.k.probe_failed"],
        sub("src/mtu.rs", "            .min((size as u16).saturating_sub(1))\n            .max(self.min_ss);", "            .min((size as u16).saturating_sub(1))\n            .max(self.min_ss);\n        self.min_ss = self.min_ss.min(self.max_ss / 2).max(1);")),
    "cubic-rto-keeps-window": (["C15"], ["cubic.k.rto"],
        sub("src/congestion/cubic.rs", "        self.w_max = self.cwnd;\n        self.cwnd = 1.\n", "        self.w_max = self.cwnd;\n        self.cwnd = self.cwnd.max(1.)\n")),
    "synack-unbounded": (["C17"], ["state.syn_ack"],
        sub("src/stream_dispatch.rs", "        if sent_count == self.socket_opts.max_segment_retransmissions.get() {\n            return Err(Error::MaxSynAckRetransmissionsReached);", "        if sent_count > self.socket_opts.max_segment_retransmissions.get() {\n            return Err(Error::MaxSynAckRetransmissionsReached);")),
    "fin-before-data": (["C17"], ["state.send_fin"],
        sub("src/stream_dispatch.rs", "        if seq_nr - self.last_sent_seq_nr != 1 {\n            return Ok(false);", "        if seq_nr - self.last_sent_seq_nr < 1 {\n            return Ok(false);")),
    "recovery-dup-thresh-counts-data": (["C06"], ["recovery.k."],
        sub("src/recovery.rs", "            if header.htype == Type::ST_STATE\n                && last.ack_nr == header.ack_nr", "            if last.ack_nr == header.ack_nr")),
    "ioslice-wrong-second-offset": (["C01"], ["ioslice."],
        sub("src/utils.rs", "    let second_offset = offset - first_offset;", "    let second_offset = offset.saturating_sub(first.len());")),
    "send-data-no-retry-cap": (["C06"], ["send_data.retry_cap"],
        sub("src/stream_dispatch.rs", "                == $self.socket_opts.max_segment_retransmissions.get()\n", "                > $self.socket_opts.max_segment_retransmissions.get()\n")),
    "send-data-wrong-payload-window": (["C06", "C01"], ["send_data.datagram_carries"],
        sub("src/stream_dispatch.rs", "                let plen = $segment_iter_item.payload_size();", "                let plen = $segment_iter_item.payload_size().min(1400);")),
    "send-data-restarts-rto-timer": (["C06"], ["send_data.retransmit_timer"],
        sub("src/stream_dispatch.rs", "                $self.rtte.retransmission_timeout(),\n                false,\n                \"rfc6298 5.1\",", "                $self.rtte.retransmission_timeout(),\n                true,\n                \"rfc6298 5.1\",")),
    "ack-glue-stale-peer-window": (["C05"], ["ackfx.peer_window"],
        sub("src/stream_dispatch.rs", "        self.last_remote_window = msg.header.wnd_size;\n", "        self.last_remote_window = self.last_remote_window.max(msg.header.wnd_size);\n")),
    "ack-glue-rtt-sample-in-recovery": (["C16"], ["ackfx.rtt_sample"],
        sub("src/stream_dispatch.rs", "        if let (false, Some(rtt)) = (self.recovery.is_recovering(), result.on_ack_result.new_rtt) {", "        if let (_, Some(rtt)) = (self.recovery.is_recovering(), result.on_ack_result.new_rtt) {")),
    "flush-forgets-ooq-bytes": (["C04"], ["rxflush.remaining_window"],
        sub("src/stream_rx.rs", "            self.last_remaining_rx_window\n                .saturating_sub(self.ooq.stored_bytes())", "            self.last_remaining_rx_window")),
    "send-front-skips-window-check": (["C04"], ["rxflush.send_front", "ooq.k.send_front"],
        sub("src/stream_rx.rs", "        if self.data[0].len_bytes() > window {\n            return None;\n        }", "        if self.data[0].len_bytes() > window.saturating_add(1) {\n            return None;\n        }")),
    "flush-ok-on-dead-socket": (["C03"], ["usertx.flush"],
        sub("src/stream_tx.rs", """        if self.user_tx.producer.lock().is_empty() {
            return Poll::Ready(Ok(()));
        }

        if g.vsock_closed {
            return Poll::Ready(Err(std::io::Error::other("socket died")));
        }""", """        if self.user_tx.producer.lock().is_empty() || g.vsock_closed {
            return Poll::Ready(Ok(()));
        }""")),
    "grow-slices-swapped": (["C19"], ["usertx.grow"],
        sub("src/stream_tx.rs", "        new_rb.push_slice(first);\n        new_rb.push_slice(second);", "        new_rb.push_slice(second);\n        new_rb.push_slice(first);")),
    "death-no-writer-close": (["C03"], ["death.writer_is_told"],
        sub("src/stream_dispatch.rs", "        // This will close the writer.\n        self.user_tx.mark_vsock_closed();\n\n        if error.is_some()", "        if error.is_some()")),
    "afterpk-truncates-sacked-bytes-too": (["C01"], ["afterpk.ring_loses"],
        sub("src/stream_dispatch.rs", ".truncate_front(result.on_ack_result.acked_bytes)?;", ".truncate_front(result.on_ack_result.acked_bytes + result.on_ack_result.newly_sacked_byte_count)?;")),
    "read-half-clean-eof-on-dead-dispatcher": (["C03"], ["rxread.end_of_stream"],
        sub("src/stream_rx.rs", "        if self.is_eof {\n            return Poll::Ready(Ok(0));\n        }\n\n        if dispatcher_dead", "        if self.is_eof || dispatcher_dead {\n            return Poll::Ready(Ok(0));\n        }\n\n        if dispatcher_dead")),
    "read-half-duplicates-a-byte": (["C03"], ["rxread."],
        sub("src/stream_rx.rs", "                current.offset += len;\n", "                current.offset += len;\n                if len > 3 { current.offset -= 1; }\n")),
    "pim-previously-seen-after-table": (["C17"], ["pim.in_sequence_fin_is_consumed"],
        lambda root: [sub("src/stream_dispatch.rs", "        let previously_seen_remote_fin = self.state.is_remote_fin_or_later();\n\n        match (self.state, hdr.get_type()) {", "        match (self.state, hdr.get_type()) {")(root),
                      sub("src/stream_dispatch.rs", "        let result = ProcessIncomingMessageResult {\n            on_ack_result: self\n                .user_tx_segments", "        let previously_seen_remote_fin = self.state.is_remote_fin_or_later();\n\n        let result = ProcessIncomingMessageResult {\n            on_ack_result: self\n                .user_tx_segments")(root)]),
    "rto-step-no-backoff": (["C06"], ["rto.retransmission_backs_off"],
        sub("src/stream_dispatch.rs", "                            .on_retransmission_timeout(self.this_poll.now);\n                        self.rtte.on_rto_timeout();\n                        self.recovery.on_rto_timeout(self.last_sent_seq_nr);\n                    }\n\n                    // Restart the timer.", "                            .on_retransmission_timeout(self.this_poll.now);\n                        self.recovery.on_rto_timeout(self.last_sent_seq_nr);\n                    }\n\n                    // Restart the timer.")),
    "sockd-limit-off-by-one": (["C12"], ["sockd."],
        sub("src/socket.rs", "        self.streams.len() >= self.socket.opts.max_active_streams.get()", "        self.streams.len() > self.socket.opts.max_active_streams.get()")),
    "sockd-unmatched-syn-to-the-back": (["C13"], ["sockd.cleanup.backlog_is_served_in_arrival_order", "sockd.cleanup.inv"],
        sub("src/socket.rs", """                MatchSynWithAccept::ReceiverDead(syn) => {
                    self.accept_queue.syns.push_front(syn);
                }""", """                MatchSynWithAccept::ReceiverDead(syn) => {
                    self.accept_queue.syns.push_back(syn);
                }""")),
    "poll-no-final-chance-timer": (["C08"], ["poll.after_local_close"],
        sub("src/stream_dispatch.rs", "            if self.state.is_local_fin_or_later() {\n                const SHUTDOWN_FINAL_CHANCE_DELAY", "            if self.state.is_local_fin_or_later() && self.user_tx_segments.is_empty() {\n                const SHUTDOWN_FINAL_CHANCE_DELAY")),
    # session 5: remove_up_to_ack stages under Verus (every queue length), guard unit
    "txseg-cleanup-forgets-len-bytes": (["C01"], ["txseg.ack_cleanup"],
        sub("src/stream_tx_segments.rs", "            payload_size += segment.payload_size;\n            self.len_bytes -= segment.payload_size;\n            self.snd_una += 1;", "            payload_size += segment.payload_size;\n            self.snd_una += 1;")),
    "txseg-cleanup-pops-lost-segments": (["C06"], ["txseg.ack_cleanup"],
        sub("src/stream_tx_segments.rs", "            if !segment.is_delivered {\n                break;", "            if !segment.is_delivered && !segment.is_lost {\n                break;")),
    "txseg-sack-bit-double-count": (["C06"], ["txseg.sack_bit"],
        sub("src/stream_tx_segments.rs", "if !segment.is_delivered && is_sacked {", "if is_sacked {")),
    "guard-drop-does-not-send": (["C12"], ["guards.drop"],
        sub("src/utils.rs", "let _ = tx.send(msg);", "let _ = msg;")),
}

HARMLESS = {
    "rename-local-pop-probe": (["C14"],
        lambda root: [sub("src/stream_tx_segments.rs", "let last_segment_seq_nr = self.snd_una + self.segments.len() as u16 - 1;", "let newest = self.snd_una + self.segments.len() as u16 - 1;")(root),
                      sub("src/stream_tx_segments.rs", "Some(s) if last_segment_seq_nr == seq_nr && s.is_mtu_probe", "Some(s) if newest == seq_nr && s.is_mtu_probe")(root)]),
    "reorder-counter-updates-enqueue": (["C01"],
        sub("src/stream_tx_segments.rs", "        self.offset += payload_len as u64;\n        self.len_bytes += payload_len;\n        true", "        self.len_bytes += payload_len;\n        self.offset += payload_len as u64;\n        true")),
    "reorder-match-arms-seq-offset": (["C09"],
        sub("src/utils.rs", "        Ordering::Equal => 0,\n        Ordering::Greater => {", "        Ordering::Greater => {")),   # completed below
    "extract-local-maybe-send-ack": (["C07"],
        sub("src/stream_dispatch.rs", "        if self.timers.ack_delay_timer.expired(self.this_poll.now) {\n            if self.ack_to_transmit() {", "        let now = self.this_poll.now;\n        if self.timers.ack_delay_timer.expired(now) {\n            if self.ack_to_transmit() {")),
    "split-expression-next-probe": (["C14"],
        sub("src/mtu.rs", "        (self.min_ss + (self.max_ss - self.min_ss) / 2 + 1).min(self.max_ss)", "        let half = (self.max_ss - self.min_ss) / 2;\n        let mid = self.min_ss + half + 1;\n        mid.min(self.max_ss)")),
    "reorder-independent-serialize-lines": (["C11"],
        sub("src/raw.rs", "        buffer[16..18].copy_from_slice(&self.seq_nr.to_be_bytes());\n        buffer[18..20].copy_from_slice(&self.ack_nr.to_be_bytes());", "        buffer[18..20].copy_from_slice(&self.ack_nr.to_be_bytes());\n        buffer[16..18].copy_from_slice(&self.seq_nr.to_be_bytes());")),
    "rename-local-segloop": (["C18", "C05"],
        lambda root: [_rename_in_fn(root, "src/stream_dispatch.rs", "let max_payload_size = (ss as usize).min(remote_window_remaining);", "max_payload_size", "cap")]),
    "if-let-instead-of-match-rtte": (["C16"],
        sub("src/rtte.rs", "        match self.state {\n            RttState::Initial { rto } => rto,\n            RttState::Subsequent { srtt, .. } => srtt,\n        }", "        if let RttState::Subsequent { srtt, .. } = self.state {\n            return srtt;\n        }\n        match self.state {\n            RttState::Initial { rto } => rto,\n            RttState::Subsequent { srtt, .. } => srtt,\n        }")),
    "extra-logging-and-comment": (["C17"],
        sub("src/stream_dispatch.rs", "        // Only send fin after all the outstanding data was sent.\n", "        // Only send fin after all the outstanding data was sent (and note it in the log).\n        trace!(?seq_nr, last_sent = ?self.last_sent_seq_nr, \"maybe_send_fin\");\n")),
    "poll-rename-and-reorder": (["C17", "C18", "C10"],
        lambda root: [sub("src/stream_dispatch.rs", "            self.this_poll.transport_pending = false;\n            self.this_poll.now = self.env.now();", "            self.this_poll.now = self.env.now();\n            self.this_poll.transport_pending = false;")(root),
                      sub("src/stream_dispatch.rs", "                let duration = instant - self.this_poll.now;\n                trace!(?duration, \"will repoll in\");\n                if !self.timers.arm_in(cx, duration) {", "                let wait = instant - self.this_poll.now;\n                trace!(?wait, \"will repoll in\");\n                if !self.timers.arm_in(cx, wait) {")(root),
                      sub("src/stream_dispatch.rs", "trace!(deadline = ?duration, \"failed arming poll timer, waking to repoll\");", "trace!(deadline = ?wait, \"failed arming poll timer, waking to repoll\");")(root)]),
    "table-reorder-independent-arms": (["C17", "C04"],
        sub("src/stream_dispatch.rs", "            (FinWait2, ST_FIN) => {\n                trace!(\"state: fin-wait-2 -> closed\");\n                self.restart_remote_inactivity_timer();\n                self.state = Closed;\n            }\n            (FinWait2, ST_DATA | ST_STATE) => {}", "            (FinWait2, ST_DATA | ST_STATE) => {}\n            (FinWait2, ST_FIN) => {\n                trace!(\"state: fin-wait-2 -> closed\");\n                self.restart_remote_inactivity_timer();\n                self.state = Closed;\n            }")),
    "packet-tail-rename-local": (["C07", "C04"],
        lambda root: [sub("src/stream_dispatch.rs", "                let assembler_was_empty = self.user_rx.assembler_empty();", "                let was_empty = self.user_rx.assembler_empty();")(root),
                      sub("src/stream_dispatch.rs", "                if !self.user_rx.assembler_empty() || !assembler_was_empty {", "                if !self.user_rx.assembler_empty() || !was_empty {")(root),
                      sub("src/stream_dispatch.rs", "                        assembler_was_empty,\n", "                        assembler_was_empty = was_empty,\n")(root)]),
    "probe-step-extra-trace": (["C17", "C14"],
        sub("src/stream_dispatch.rs", "                self.timers.retransmit.turn_off(\"MTU probe is not real RTO\");", "                trace!(\"turning off the retransmit timer\");\n                self.timers.retransmit.turn_off(\"MTU probe is not real RTO\");")),
    "helper-extracted-ooq": (["C04"],
        sub("src/stream_rx.rs", "    pub fn is_full(&self) -> bool {\n        self.len == self.capacity\n    }", "    pub fn is_full(&self) -> bool {\n        self.free_slots() == 0\n    }\n\n    fn free_slots(&self) -> usize {\n        self.capacity - self.len\n    }")),
    "send-data-reorder-timer-arming": (["C06"],
        lambda root: [sub("src/stream_dispatch.rs", "            // rfc6298 5.1\n            $self.timers.retransmit.arm(\n                $self.this_poll.now,\n                $self.rtte.retransmission_timeout(),\n                false,\n                \"rfc6298 5.1\",\n            );\n\n            $self.timers.remote_inactivity_timer.arm(\n                $self.this_poll.now,\n                $self.socket_opts.remote_inactivity_timeout,\n                false,\n                \"expecting reply on ST_DATA\",\n            );", "            $self.timers.remote_inactivity_timer.arm(\n                $self.this_poll.now,\n                $self.socket_opts.remote_inactivity_timeout,\n                false,\n                \"expecting reply on ST_DATA\",\n            );\n\n            // rfc6298 5.1\n            $self.timers.retransmit.arm(\n                $self.this_poll.now,\n                $self.rtte.retransmission_timeout(),\n                false,\n                \"rfc6298 5.1\",\n            );")(root)]),
    "send-data-rename-locals": (["C06"],
        lambda root: [sub("src/stream_dispatch.rs", "            let mut h = [0u8; UTP_HEADER as usize];\n            let hlen = $header.serialize(&mut h)?;", "            let mut hbuf = [0u8; UTP_HEADER as usize];\n            let hlen = $header.serialize(&mut hbuf)?;")(root),
                      sub("src/stream_dispatch.rs", "                    IoSlice::new(&h[..hlen]),", "                    IoSlice::new(&hbuf[..hlen]),")(root)]),
    "ack-glue-reorder-independent": (["C05", "C14"],
        sub("src/stream_dispatch.rs", "        self.last_remote_timestamp = msg.header.timestamp_microseconds;\n        self.last_remote_window = msg.header.wnd_size;\n", "        self.last_remote_window = msg.header.wnd_size;\n        self.last_remote_timestamp = msg.header.timestamp_microseconds;\n")),
    "flush-extra-trace-and-local": (["C07"],
        sub("src/stream_rx.rs", "        self.last_remaining_rx_window = remaining_rx_window;\n        Ok(flushed_bytes)", "        let left = remaining_rx_window;\n        trace!(left, \"window after flush\");\n        self.last_remaining_rx_window = left;\n        Ok(flushed_bytes)")),
    "usertx-reorder-write-guards": (["C19", "C03"],
        sub("src/stream_tx.rs", """        if g.vsock_closed {
            return Poll::Ready(Err(std::io::Error::other("socket closed")));
        }

        if g.writer_shutdown {
            return Poll::Ready(Err(std::io::Error::other("no writing after shutdown")));
        }
""", """        if g.writer_shutdown {
            return Poll::Ready(Err(std::io::Error::other("no writing after shutdown")));
        }

        if g.vsock_closed {
            return Poll::Ready(Err(std::io::Error::other("socket closed")));
        }
""")),
    "usertx-shutdown-early-return-style": (["C03"],
        sub("src/stream_tx.rs", """        if g.vsock_closed {
            return Poll::Ready(Ok(()));
        }

        g.writer_shutdown = true;
        update_optional_waker(&mut g.writer_waker, cx);
        Poll::Pending""", """        if !g.vsock_closed {
            g.writer_shutdown = true;
            update_optional_waker(&mut g.writer_waker, cx);
            return Poll::Pending;
        }
        Poll::Ready(Ok(()))""")),
    "usertx-grow-min-operands-swapped": (["C19"],
        sub("src/stream_tx.rs", "let new_cap = (cap * 2).min(max_size.get());", "let doubled = cap * 2;\n        let new_cap = max_size.get().min(doubled);")),
    "death-merge-error-branches": (["C03"],
        sub("src/stream_dispatch.rs", """        if let Some(err) = error {
            trace!("just_before_death: {err:#}");
        } else {
            trace!("just_before_death: no error");
        }

        if let Some(e) = error {
            self.user_rx.enqueue_error(format!("{e:#}"));
        }
""", """        if let Some(e) = error {
            trace!("just_before_death: {e:#}");
            self.user_rx.enqueue_error(format!("{e:#}"));
        } else {
            trace!("just_before_death: no error");
        }
""")),
    "afterpk-swap-timer-turn-offs": (["C06", "C01"],
        sub("src/stream_dispatch.rs", """                self.timers.retransmit.turn_off("rfc6298 5.2");

                self.timers.remote_inactivity_timer.turn_off("TX is empty");""", """                self.timers.remote_inactivity_timer.turn_off("TX is empty");
                self.timers.retransmit.turn_off("rfc6298 5.2");""")),
    "read-half-reorder-independent-updates": (["C03"],
        sub("src/stream_rx.rs", "                written += len;\n                current.offset += len;\n", "                current.offset += len;\n                written += len;\n")),
    "read-half-match-arm-order": (["C03"],
        sub("src/stream_rx.rs", """                    UserRxMessage::Eof => {
                        drop(g);
                        self.is_eof = true;
                        break;
                    }
                    UserRxMessage::Payload(payload) => {
                        drop(g);
                        self.current = Some(BeingRead { payload, offset: 0 })
                    }""", """                    UserRxMessage::Payload(payload) => {
                        drop(g);
                        self.current = Some(BeingRead { payload, offset: 0 })
                    }
                    UserRxMessage::Eof => {
                        drop(g);
                        self.is_eof = true;
                        break;
                    }""")),
    "pim-extra-trace-before-table": (["C17"],
        sub("src/stream_dispatch.rs", "        let previously_seen_remote_fin = self.state.is_remote_fin_or_later();\n", "        let previously_seen_remote_fin = self.state.is_remote_fin_or_later();\n        trace!(previously_seen_remote_fin, \"before the table\");\n")),
    "rto-step-reorder-notifications": (["C06"],
        sub("src/stream_dispatch.rs", """                        self.congestion_controller
                            .on_retransmission_timeout(self.this_poll.now);
                        self.rtte.on_rto_timeout();
                        self.recovery.on_rto_timeout(self.last_sent_seq_nr);
                    }

                    // Restart the timer.""", """                        self.rtte.on_rto_timeout();
                        self.congestion_controller
                            .on_retransmission_timeout(self.this_poll.now);
                        self.recovery.on_rto_timeout(self.last_sent_seq_nr);
                    }

                    // Restart the timer.""")),
    "sockd-reorder-independent-lets": (["C12", "C13"],
        sub("src/socket.rs", """        let args = StreamArgs::new_incoming(self.env.random_u16().into(), &syn.header)
            .with_parent_span(accept.created_span.clone());
        let (tx, rx) = unbounded_channel();
""", """        let (tx, rx) = unbounded_channel();
        let args = StreamArgs::new_incoming(self.env.random_u16().into(), &syn.header)
            .with_parent_span(accept.created_span.clone());
""")),
    "sockd-cleanup-early-return-style": (["C13"],
        sub("src/socket.rs", """                MatchSynWithAccept::Matched => continue,
                MatchSynWithAccept::SynInvalid(sender) => {
                    self.accept_queue.next_available_acceptor = Some(sender);
                }""", """                MatchSynWithAccept::SynInvalid(sender) => {
                    self.accept_queue.next_available_acceptor = Some(sender);
                }
                MatchSynWithAccept::Matched => continue,""")),
    "poll-final-chance-extra-trace": (["C08"],
        sub("src/stream_dispatch.rs", "            if self.state.is_local_fin_or_later() {\n                const SHUTDOWN_FINAL_CHANCE_DELAY", "            if self.state.is_local_fin_or_later() {\n                trace!(\"arming the final-chance timer\");\n                const SHUTDOWN_FINAL_CHANCE_DELAY")),
    # session 5
    "reorder-cleanup-loop-remove-up-to-ack": (["C06"],
        sub("src/stream_tx_segments.rs", "            removed += 1;\n            payload_size += segment.payload_size;\n            self.len_bytes -= segment.payload_size;\n            self.snd_una += 1;\n            self.segments.pop_front().unwrap();",
            "            let size = segment.payload_size;\n            self.snd_una += 1;\n            self.len_bytes -= size;\n            payload_size += size;\n            removed += 1;\n            self.segments.pop_front();")),
    "reorder-sack-closure-counters": (["C06"],
        sub("src/stream_tx_segments.rs", "                        newly_sacked_segment_count += 1;\n                        newly_sacked_byte_count += segment.payload_size;", "                        newly_sacked_byte_count += segment.payload_size;\n                        newly_sacked_segment_count += 1;")),
}


def _rename_in_fn(root, path, anchor, old, new):
    p = os.path.join(root, path)
    s = open(p).read()
    i = s.index(anchor)
    j = s.index("trace!(bytes = payload_size, \"segmented\");", i)
    seg = re.sub(r"\b" + old + r"\b", new, s[i:j])
    open(p, "w").write(s[:i] + seg + s[j:])


def _fix_reorder_match(root):
    # move the Equal arm after the Greater arm (completes the edit started by the `sub` above)
    p = os.path.join(root, "src/utils.rs")
    s = open(p).read()
    s = s.replace("            (new - old) as isize\n        }\n    }\n}", "            (new - old) as isize\n        }\n        Ordering::Equal => 0,\n    }\n}", 1)
    open(p, "w").write(s)


def make_scratch():
    d = tempfile.mkdtemp(prefix="verif-selftest-")
    for name in ("src", "Cargo.toml", "Cargo.lock", "test"):
        p = os.path.join(REPO, name)
        (shutil.copytree if os.path.isdir(p) else shutil.copy2)(p, os.path.join(d, name))
    return d


def run_check(prop, root, out, tier="quick"):
    env = dict(os.environ, VERIF_REPO=root, VERIF_OUT=out)
    t0 = time.time()
    p = subprocess.run([os.path.join(V, "check"), prop, "--tier", tier], capture_output=True, text=True, env=env, cwd=V)
    return p.returncode, p.stdout + p.stderr, time.time() - t0


def compiles(root):
    p = subprocess.run(["cargo", "check", "--offline", "--lib"], cwd=root, capture_output=True, text=True,
                       env=dict(os.environ, CARGO_TARGET_DIR="/tmp/verif-selftest-target"))
    return p.returncode == 0, p.stderr[-1500:]


def main():
    mode = sys.argv[1]
    names = sys.argv[2:]
    results = {}
    rp = os.path.join(V, "selftest", "results.json")
    if os.path.exists(rp):
        results = json.load(open(rp))
    if mode == "breaking":
        todo = {k: v for k, v in BREAKING.items() if not names or k in names}
        for name, (props, expect, edit) in todo.items():
            root, out = make_scratch(), tempfile.mkdtemp(prefix="verif-selftest-out-")
            try:
                edit(root)
                ok, err = compiles(root)
                if not ok:
                    results[f"breaking/{name}"] = {"verdict": "EDIT-DOES-NOT-COMPILE", "err": err}
                    print(name, "EDIT-DOES-NOT-COMPILE", err[-300:])
                    continue
                for prop in props:
                    rc, txt, wall = run_check(prop, root, out)
                    viol = re.findall(r"VIOLATION property=\S+ replay=\S+ obligation=(\S+)(.*)", txt)
                    hit = [o for o, _ in viol if any(e in o for e in expect)]
                    verdict = "CAUGHT" if rc == 1 and hit else ("CAUGHT-OTHER-OBLIGATION" if rc == 1 else ("UNDECIDED" if rc == 2 else "MISSED"))
                    results[f"breaking/{name}/{prop}"] = {"verdict": verdict, "exit": rc, "violations": [o + t for o, t in viol], "wall_s": round(wall)}
                    print(f"{name:40s} {prop} {verdict:8s} exit={rc} {[o + t for o, t in viol][:4]} {wall:.0f}s")
                    if rc == 2:
                        print("   ", [l for l in txt.split("\n") if l.startswith("UNDECIDED")][:3])
            finally:
                shutil.rmtree(root, ignore_errors=True)
                shutil.rmtree(out, ignore_errors=True)
                json.dump(results, open(rp, "w"), indent=1)
    elif mode == "harmless":
        todo = {k: v for k, v in HARMLESS.items() if not names or k in names}
        for name, (props, edit) in todo.items():
            root, out = make_scratch(), tempfile.mkdtemp(prefix="verif-selftest-out-")
            try:
                edit(root)
                if name == "reorder-match-arms-seq-offset":
                    _fix_reorder_match(root)
                ok, err = compiles(root)
                if not ok:
                    results[f"harmless/{name}"] = {"verdict": "EDIT-DOES-NOT-COMPILE", "err": err}
                    print(name, "EDIT-DOES-NOT-COMPILE", err[-400:])
                    continue
                for prop in props:
                    rc, txt, wall = run_check(prop, root, out)
                    verdict = "QUIET" if rc == 0 else ("FALSE-ALARM" if rc == 1 else "UNDECIDED")
                    results[f"harmless/{name}/{prop}"] = {"verdict": verdict, "exit": rc, "wall_s": round(wall)}
                    print(f"{name:40s} {prop} {verdict:10s} exit={rc} {wall:.0f}s")
                    if rc != 0:
                        print("   ", [l for l in txt.split("\n") if l.startswith(("UNDECIDED", "VIOLATION"))][:4])
            finally:
                shutil.rmtree(root, ignore_errors=True)
                shutil.rmtree(out, ignore_errors=True)
                json.dump(results, open(rp, "w"), indent=1)
    elif mode == "seeded":
        sd = os.path.join(V, "seeded")
        ids = [x for x in sorted(os.listdir(sd)) if os.path.isdir(os.path.join(sd, x)) and (not names or x in names)]
        for sid in ids:
            meta = json.load(open(os.path.join(sd, sid, "meta.json")))
            root, out = make_scratch(), tempfile.mkdtemp(prefix="verif-selftest-out-")
            try:
                subprocess.run(["git", "init", "-q"], cwd=root)
                p = subprocess.run(["git", "apply", os.path.join(sd, sid, "patch.diff")], cwd=root, capture_output=True, text=True)
                if p.returncode != 0:
                    print(sid, "PATCH-DOES-NOT-APPLY", p.stderr[-300:])
                    results[f"seeded/{sid}"] = {"verdict": "PATCH-DOES-NOT-APPLY"}
                    continue
                shutil.rmtree(os.path.join(root, ".git"), ignore_errors=True)
                for prop in meta.get("check_with", [meta["property"]]):
                    rc, txt, wall = run_check(prop, root, out, meta.get("tier", "quick"))
                    viol = re.findall(r"VIOLATION property=\S+ replay=\S+ obligation=(\S+)(.*)", txt)
                    verdict = "CAUGHT" if rc == 1 else ("UNDECIDED" if rc == 2 else "MISSED")
                    results[f"seeded/{sid}/{prop}"] = {"verdict": verdict, "exit": rc, "violations": [o + t for o, t in viol], "wall_s": round(wall)}
                    print(f"{sid:30s} {prop} {verdict:8s} exit={rc} {[o + t for o, t in viol][:4]} {wall:.0f}s")
                    if rc == 2:
                        print("   ", [l for l in txt.split("\n") if l.startswith("UNDECIDED")][:3])
            finally:
                shutil.rmtree(root, ignore_errors=True)
                shutil.rmtree(out, ignore_errors=True)
                json.dump(results, open(rp, "w"), indent=1)


if __name__ == "__main__":
    main()
